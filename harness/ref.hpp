// Reference models of SKINNY-64/128 (all six tweakey sizes, plus the tweakable
// TK1=tweak construction used by skinny-c) and MANTIS-r, written from the
// specifications (eprint 2016/660) in the most literal cell-array / table form.
// Shares no code, representation or constant layout with rweather/skinny-c.
#pragma once
#include <array>
#include <cstdint>
#include <cstdio>
#include <cstdlib>
#include <cstring>
#include <string>
#include <vector>

namespace ref {

typedef std::vector<uint8_t> Bytes;
typedef std::array<uint8_t, 16> Cells;

static const uint8_t S4[16] = {0xc, 0x6, 0x9, 0x0, 0x1, 0xa, 0x2, 0xb, 0x3, 0x8, 0x5, 0xd, 0x4, 0xe, 0x7, 0xf};

struct Tables {
    uint8_t s8[256], s8i[256], s4i[16];
    uint8_t sri[16], mhi[16], mpi[16];
    Tables();
};

// SKINNY 8-bit S-box from the paper's bit-level definition
static inline uint8_t s8_bitwise(uint8_t x) {
    int b[8];
    for (int i = 0; i < 8; ++i) b[i] = (x >> i) & 1;
    for (int it = 0; it < 4; ++it) {
        b[4] ^= 1 ^ (b[7] | b[6]);
        b[0] ^= 1 ^ (b[3] | b[2]);
        if (it < 3) {
            int n[8];
            // (x7..x0) -> (x2,x1,x7,x6,x4,x0,x3,x5)
            n[7] = b[2]; n[6] = b[1]; n[5] = b[7]; n[4] = b[6]; n[3] = b[4]; n[2] = b[0]; n[1] = b[3]; n[0] = b[5];
            for (int i = 0; i < 8; ++i) b[i] = n[i];
        } else {
            int t = b[1]; b[1] = b[2]; b[2] = t;
        }
    }
    uint8_t r = 0;
    for (int i = 0; i < 8; ++i) r |= (uint8_t)(b[i] << i);
    return r;
}

static const uint8_t PT[16] = {9, 15, 8, 13, 10, 14, 12, 11, 0, 1, 2, 3, 4, 5, 6, 7};
static const uint8_t SR[16] = {0, 1, 2, 3, 7, 4, 5, 6, 10, 11, 8, 9, 13, 14, 15, 12};  // new[i] = old[SR[i]]

// MANTIS
static const uint8_t MS[16] = {0xc, 0xa, 0xd, 0x3, 0xe, 0xb, 0xf, 0x7, 0x8, 0x9, 0x1, 0x5, 0x0, 0x2, 0x4, 0x6};
static const uint8_t MH[16] = {6, 5, 14, 15, 0, 1, 2, 3, 7, 12, 13, 4, 8, 9, 10, 11};
static const uint8_t MP[16] = {0, 11, 6, 13, 10, 1, 12, 7, 5, 14, 3, 8, 15, 4, 9, 2};
static const uint64_t MRC[8] = {0x13198a2e03707344ULL, 0xa4093822299f31d0ULL, 0x082efa98ec4e6c89ULL,
                                0x452821e638d01377ULL, 0xbe5466cf34e90c6cULL, 0xc0ac29b7c97c50ddULL,
                                0x3f84d5b5b5470917ULL, 0x9216d5d98979fb1bULL};
static const uint64_t MALPHA = 0x243f6a8885a308d3ULL;

inline Tables::Tables() {
    for (int i = 0; i < 256; ++i) s8[i] = s8_bitwise((uint8_t)i);
    for (int i = 0; i < 256; ++i) s8i[s8[i]] = (uint8_t)i;
    for (int i = 0; i < 16; ++i) s4i[S4[i]] = (uint8_t)i;
    for (int i = 0; i < 16; ++i) sri[SR[i]] = (uint8_t)i;
    for (int i = 0; i < 16; ++i) mhi[MH[i]] = (uint8_t)i;
    for (int i = 0; i < 16; ++i) mpi[MP[i]] = (uint8_t)i;
}

static inline const Tables &T() { static Tables t; return t; }

static inline Cells to_cells(const uint8_t *d, int s) {
    Cells c{};
    if (s == 8) { for (int i = 0; i < 16; ++i) c[i] = d[i]; }
    else { for (int i = 0; i < 8; ++i) { c[2 * i] = d[i] >> 4; c[2 * i + 1] = d[i] & 15; } }
    return c;
}
static inline void from_cells(const Cells &c, int s, uint8_t *out) {
    if (s == 8) { for (int i = 0; i < 16; ++i) out[i] = c[i]; }
    else { for (int i = 0; i < 8; ++i) out[i] = (uint8_t)((c[2 * i] << 4) | c[2 * i + 1]); }
}
static inline uint8_t lfsr2(uint8_t x, int s) {
    if (s == 4) return (uint8_t)(((x << 1) & 0xE) | (((x >> 3) ^ (x >> 2)) & 1));
    return (uint8_t)(((x << 1) & 0xFE) | (((x >> 7) ^ (x >> 5)) & 1));
}
static inline uint8_t lfsr3(uint8_t x, int s) {
    if (s == 4) return (uint8_t)((x >> 1) | (((x ^ (x >> 3)) & 1) << 3));
    return (uint8_t)((x >> 1) | (((x ^ (x >> 6)) & 1) << 7));
}
static inline int skinny_rounds(int s, int z) {
    if (s == 4) return z == 1 ? 32 : z == 2 ? 36 : 40;
    return z == 1 ? 40 : z == 2 ? 48 : 56;
}

struct RoundMat { uint8_t c0, c1; uint8_t rtk[8]; };

// tweakey: z*n bytes (n = block size in bytes), s = cell size in bits
static inline std::vector<RoundMat> round_material(const uint8_t *tweakey, size_t len, int s) {
    int n = s == 4 ? 8 : 16;
    int z = (int)(len / n);
    if ((size_t)z * n != len || z < 1 || z > 3) { fprintf(stderr, "ref: bad tweakey length\n"); abort(); }
    Cells tks[3];
    for (int i = 0; i < z; ++i) tks[i] = to_cells(tweakey + i * n, s);
    std::vector<RoundMat> out;
    unsigned rc = 0;
    int rounds = skinny_rounds(s, z);
    for (int r = 0; r < rounds; ++r) {
        rc = ((rc << 1) & 0x3F) | (((rc >> 5) ^ (rc >> 4) ^ 1) & 1);
        RoundMat m;
        m.c0 = rc & 0xF; m.c1 = (uint8_t)(rc >> 4);
        for (int i = 0; i < 8; ++i) { m.rtk[i] = 0; for (int zi = 0; zi < z; ++zi) m.rtk[i] ^= tks[zi][i]; }
        out.push_back(m);
        for (int zi = 0; zi < z; ++zi) {
            Cells tk;
            for (int i = 0; i < 16; ++i) tk[i] = tks[zi][PT[i]];
            if (zi == 1) for (int i = 0; i < 8; ++i) tk[i] = lfsr2(tk[i], s);
            if (zi == 2) for (int i = 0; i < 8; ++i) tk[i] = lfsr3(tk[i], s);
            tks[zi] = tk;
        }
    }
    return out;
}

// block: 8 or 16 bytes; tweakey: 1..3 blocks
static inline Bytes skinny_encrypt(const Bytes &block, const Bytes &tweakey, bool domain_bit = false) {
    int s = block.size() == 8 ? 4 : 8;
    const uint8_t *sb = s == 4 ? S4 : T().s8;
    Cells st = to_cells(block.data(), s);
    for (const RoundMat &m : round_material(tweakey.data(), tweakey.size(), s)) {
        for (int i = 0; i < 16; ++i) st[i] = sb[st[i]];
        st[0] ^= m.c0; st[4] ^= m.c1; st[8] ^= 2;
        if (domain_bit) st[2] ^= 2;
        for (int i = 0; i < 8; ++i) st[i] ^= m.rtk[i];
        Cells t;
        for (int i = 0; i < 16; ++i) t[i] = st[SR[i]];
        Cells n;
        for (int c = 0; c < 4; ++c) {
            uint8_t r0 = t[c], r1 = t[4 + c], r2 = t[8 + c], r3 = t[12 + c];
            n[c] = r0 ^ r2 ^ r3; n[4 + c] = r0; n[8 + c] = r1 ^ r2; n[12 + c] = r0 ^ r2;
        }
        st = n;
    }
    Bytes out(block.size());
    from_cells(st, s, out.data());
    return out;
}

static inline Bytes skinny_decrypt(const Bytes &block, const Bytes &tweakey, bool domain_bit = false) {
    int s = block.size() == 8 ? 4 : 8;
    const uint8_t *sbi = s == 4 ? T().s4i : T().s8i;
    Cells st = to_cells(block.data(), s);
    std::vector<RoundMat> rm = round_material(tweakey.data(), tweakey.size(), s);
    for (size_t k = rm.size(); k-- > 0;) {
        const RoundMat &m = rm[k];
        Cells n;
        for (int c = 0; c < 4; ++c) {
            uint8_t r0 = st[c], r1 = st[4 + c], r2 = st[8 + c], r3 = st[12 + c];
            uint8_t o0 = r1, o2 = r3 ^ o0, o1 = r2 ^ o2, o3 = r0 ^ o0 ^ o2;
            n[c] = o0; n[4 + c] = o1; n[8 + c] = o2; n[12 + c] = o3;
        }
        for (int i = 0; i < 16; ++i) st[i] = n[T().sri[i]];
        for (int i = 0; i < 8; ++i) st[i] ^= m.rtk[i];
        if (domain_bit) st[2] ^= 2;
        st[0] ^= m.c0; st[4] ^= m.c1; st[8] ^= 2;
        for (int i = 0; i < 16; ++i) st[i] = sbi[st[i]];
    }
    Bytes out(block.size());
    from_cells(st, s, out.data());
    return out;
}

// Tweakable construction of skinny-c: tweak (zero padded on the right to one block)
// in TK1, key (1 or 2 blocks) in TK2(/TK3), domain-separation bit set.
static inline Bytes skinny_tweaked(const Bytes &block, const Bytes &key, const Bytes &tweak, bool decrypt) {
    Bytes tk(block.size(), 0);
    for (size_t i = 0; i < tweak.size() && i < tk.size(); ++i) tk[i] = tweak[i];
    tk.insert(tk.end(), key.begin(), key.end());
    return decrypt ? skinny_decrypt(block, tk, true) : skinny_encrypt(block, tk, true);
}

// ----------------------------------------------------------------------------- MANTIS
static inline void mn(uint64_t x, uint8_t *c) { for (int i = 0; i < 16; ++i) c[i] = (uint8_t)((x >> (60 - 4 * i)) & 15); }
static inline uint64_t mu(const uint8_t *c) { uint64_t v = 0; for (int i = 0; i < 16; ++i) v = (v << 4) | c[i]; return v; }
static inline void mmix(uint8_t *st) {
    uint8_t n[16];
    for (int c = 0; c < 4; ++c) {
        uint8_t a = st[c], b = st[4 + c], d = st[8 + c], e = st[12 + c];
        n[c] = b ^ d ^ e; n[4 + c] = a ^ d ^ e; n[8 + c] = a ^ b ^ e; n[12 + c] = a ^ b ^ d;
    }
    memcpy(st, n, 16);
}
static inline void mperm(uint8_t *st, const uint8_t *p) {
    uint8_t n[16];
    for (int j = 0; j < 16; ++j) n[j] = st[p[j]];
    memcpy(st, n, 16);
}
static inline uint64_t mantis_core(uint64_t m, uint64_t k0, uint64_t k0p, uint64_t k1, uint64_t t, int r) {
    uint8_t st[16], Tw[16], K1[16], K1A[16], tmp[16];
    mn(m ^ k0 ^ k1 ^ t, st); mn(t, Tw); mn(k1, K1); mn(k1 ^ MALPHA, K1A);
    for (int i = 0; i < r; ++i) {
        mperm(Tw, MH);
        for (int j = 0; j < 16; ++j) st[j] = MS[st[j]];
        mn(MRC[i], tmp);
        for (int j = 0; j < 16; ++j) st[j] ^= tmp[j] ^ K1[j] ^ Tw[j];
        mperm(st, MP);
        mmix(st);
    }
    for (int j = 0; j < 16; ++j) st[j] = MS[st[j]];
    mmix(st);
    for (int j = 0; j < 16; ++j) st[j] = MS[st[j]];
    for (int i = r; i-- > 0;) {
        mmix(st);
        mperm(st, T().mpi);
        mn(MRC[i], tmp);
        for (int j = 0; j < 16; ++j) st[j] ^= K1A[j] ^ Tw[j] ^ tmp[j];
        for (int j = 0; j < 16; ++j) st[j] = MS[st[j]];
        mperm(Tw, T().mhi);
    }
    return mu(st) ^ k0p ^ k1 ^ MALPHA ^ mu(Tw);
}
static inline uint64_t be64(const uint8_t *p) { uint64_t v = 0; for (int i = 0; i < 8; ++i) v = (v << 8) | p[i]; return v; }
static inline Bytes be64b(uint64_t v) { Bytes b(8); for (int i = 0; i < 8; ++i) b[i] = (uint8_t)(v >> (56 - 8 * i)); return b; }

// key: 16 bytes, tweak: 8 bytes (shorter tweaks are not part of the Mantis API), r in 5..8
static inline Bytes mantis_crypt(const Bytes &block, const Bytes &key, const Bytes &tweak, int r, bool decrypt) {
    uint64_t k0 = be64(key.data()), k1 = be64(key.data() + 8);
    uint64_t k0p = ((k0 >> 1) | (k0 << 63)) ^ (k0 >> 63);
    uint64_t t = be64(tweak.data());
    uint64_t m = be64(block.data());
    uint64_t c = decrypt ? mantis_core(m, k0p, k0, k1 ^ MALPHA, t, r) : mantis_core(m, k0, k0p, k1, t, r);
    return be64b(c);
}

// ----------------------------------------------------------------------------- published vectors
static inline Bytes unhex(const char *s) {
    Bytes b; size_t n = strlen(s);
    for (size_t i = 0; i + 1 < n; i += 2) { unsigned v; sscanf(s + i, "%2x", &v); b.push_back((uint8_t)v); }
    return b;
}

// returns empty string on success, else description (an *infrastructure* error)
static inline std::string selftest() {
    static const char *kats[6][3] = {
        {"f5269826fc681238", "06034f957724d19d", "bb39dfb2429b8ac7"},
        {"9eb93640d088da6376a39d1c8bea71e1", "cf16cfe8fd0f98aa", "6ceda1f43de92b9e"},
        {"ed00c85b120d68618753e24bfd908f60b2dbb41b422dfcd0", "530c61d35e8663c3", "dd2cf1a8f330303c"},
        {"4f55cfb0520cac52fd92c15f37073e93", "f20adb0eb08b648a3b2eeed1f0adda14", "22ff30d498ea62d7e45b476e33675b74"},
        {"009cec81605d4ac1d2ae9e3085d7a1f31ac123ebfc00fddcf01046ceeddfcab3", "3a0c47767a26a68dd382a695e7022e25",
         "b731d98a4bde147a7ed4a6f16b9b587f"},
        {"df889548cfc7ea52d296339301797449ab588a34a47f1ab2dfe9c8293fbea9a5ab1afac2611012cd8cef952618c3ebe8",
         "a3994b66ad85a3459f44e92b08f550cb", "94ecf589e2017c601b38c6346a10dcfa"}};
    if (T().s8[0] != 0x65 || T().s8[1] != 0x4c || T().s8[2] != 0x6a || T().s8[3] != 0x42 || T().s8[7] != 0x6b)
        return "S8 first row";
    for (auto &k : kats) {
        Bytes key = unhex(k[0]), p = unhex(k[1]), c = unhex(k[2]);
        if (skinny_encrypt(p, key) != c) return std::string("skinny enc KAT ") + k[0];
        if (skinny_decrypt(c, key) != p) return std::string("skinny dec KAT ") + k[0];
    }
    static const char *mk[4][2] = {{"3b5c77a4921f9718", "d6522035c1c0c6c1"}, {"d6522035c1c0c6c1", "60e43457311936fd"},
                                   {"60e43457311936fd", "308e8a07f168f517"}, {"308e8a07f168f517", "971ea01a86b410bb"}};
    Bytes mkey = unhex("92f09952c625e3e9d7a060f714c0292b"), mtw = unhex("ba912e6f1055fed2");
    for (int i = 0; i < 4; ++i) {
        Bytes p = unhex(mk[i][0]), c = unhex(mk[i][1]);
        if (mantis_crypt(p, mkey, mtw, 5 + i, false) != c) return "mantis enc KAT";
        if (mantis_crypt(c, mkey, mtw, 5 + i, true) != p) return "mantis dec KAT";
    }
    // inverse law on pseudo-random data for every variant incl. tweaked
    uint64_t x = 0x9e3779b97f4a7c15ULL;
    auto nxt = [&]() { x ^= x << 13; x ^= x >> 7; x ^= x << 17; return (uint8_t)(x >> 24); };
    for (int it = 0; it < 40; ++it) {
        for (int bs : {8, 16}) for (int z = 1; z <= 3; ++z) {
            Bytes k(bs * z), b(bs);
            for (auto &v : k) v = nxt();
            for (auto &v : b) v = nxt();
            if (skinny_decrypt(skinny_encrypt(b, k), k) != b) return "skinny inverse law";
            if (skinny_decrypt(skinny_encrypt(b, k, true), k, true) != b) return "skinny inverse law (domain)";
        }
        Bytes k(16), t(8), b(8);
        for (auto &v : k) v = nxt();
        for (auto &v : t) v = nxt();
        for (auto &v : b) v = nxt();
        for (int r = 5; r <= 8; ++r)
            if (mantis_crypt(mantis_crypt(b, k, t, r, false), k, t, r, true) != b) return "mantis inverse law";
    }
    return "";
}

}  // namespace ref
