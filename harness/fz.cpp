// libFuzzer target (thorough tier of C05, C06, C14, C15): structure-aware, coverage-guided fuzzing
// of API call programs.  The input is the text form of a Program (prog.hpp); a custom mutator
// parses it, applies a structural mutation (edit an integer / byte attribute, insert, delete,
// duplicate or swap operations, splice in an operation of another kind) and serialises it again.
// `repair()` then re-establishes the caller's obligations (so that only the *library* can be
// blamed for a failure) and the property's own oracle - the same code as the rapidcheck harness
// - judges the run.  A failure writes the repaired program next to the artefact and traps.
#define SKV_NO_MAIN
#include "c05.cpp"
#include "c06.cpp"
#include "c14.cpp"
#include "c15.cpp"

using namespace skv;

static int g_prop = 6;
static Harness *g_h = nullptr;
static Stats g_st;
static std::string g_out;
static uint64_t g_execs = 0, g_rejected = 0;
static int g_cur_fd = -1;

static uint64_t rng_state;
static uint32_t rnd() { rng_state ^= rng_state << 13; rng_state ^= rng_state >> 7; rng_state ^= rng_state << 17; return (uint32_t)(rng_state >> 16); }
static uint32_t rndn(uint32_t n) { return n ? rnd() % n : 0; }

// Re-establish caller obligations.  Returns false if nothing sensible is left.
static bool repair(Program &p) {
    Program q;
    std::vector<SlotState> ss;
    std::vector<int> fills;
    for (Op op : p) {
        size_t dot = op.name.find('.');
        if (dot == std::string::npos) continue;
        std::string pre = op.name.substr(0, dot), fn = op.name.substr(dot + 1);
        if (pre == "new") {
            int k = kind_of(fn);
            if (k < 0 || !(kind_is_ctr(k) || kind_is_par(k)) || ss.size() >= 4) continue;
            SlotState s; s.kind = k; int fill = (int)op.geti("fill", 0) & 0xff; s.zeroed = fill == 0;
            ss.push_back(s); op.kv.clear(); op.set("fill", fill); q.push_back(op);
            continue;
        }
        int kind = kind_of(pre);
        if (kind < 0) continue;
        long long si = op.geti("s", -1);
        bool nullobj = si < 0;
        if (!nullobj && ((size_t)si >= ss.size() || ss[(size_t)si].kind != kind)) continue;
        int bs = kind_bs(kind);
        bool mant = kind == CM || kind == PM;
        // repeated calls (rep=N) only on setters, and short: a fuzz iteration must stay cheap
        if (op.has("rep")) {
            long long rep = op.geti("rep", 1);
            bool setter = fn == "set_key" || fn == "set_tweaked_key" || fn == "set_tweak" || fn == "set_counter";
            std::vector<std::pair<std::string, Val>> kv; for (auto &x : op.kv) if (x.first != "rep") kv.push_back(x); op.kv = kv;
            if (setter && rep > 1) op.set("rep", std::min<long long>(rep, 600));
        }
        SlotState dummy; SlotState &s = nullobj ? dummy : ss[(size_t)si];
        bool usable = nullobj || s.ever || s.zeroed;        // anything else is a call on arbitrary bytes: caller misuse
        // normalise attribute shapes: byte buffers must cover what the call may legally read
        auto fit = [&](const char *k, size_t want) { const Bytes *b = op.getb(k); if (b && b->size() < want) { Bytes c = *b; c.resize(want, 0x5a); op.set(k, c); } };
        if (fn == "init") {
            if (!nullobj && s.live) continue;                // init of a live object leaks by design
            int be = (int)op.geti("be", 256); be = be >= 256 ? 256 : be >= 128 ? 128 : 0; op.set("be", be);
            // allocation-failure injection exists only where the harness installs the allocator monitor hooks (C14, C15)
            bool failing = (g_prop == 14 || g_prop == 15) && op.geti("failat") == 1;
            { std::vector<std::pair<std::string, Val>> kv; for (auto &x : op.kv) if (x.first != "failat") kv.push_back(x); op.kv = kv; }
            if (failing) { op.set("failat", 1); if (!nullobj) { s.live = false; s.keyed = false; s.ever = true; } q.push_back(op); continue; }
            if (!nullobj) { s.live = true; s.keyed = false; s.tweaked = false; s.ever = true; }
        } else if (!usable) continue;
        else if (fn == "cleanup") { if (!nullobj) { s.live = false; s.keyed = false; } }
        else if (fn == "set_key" || fn == "set_tweaked_key") {
            if (fn == "set_tweaked_key" && (mant || kind_is_par(kind))) continue;
            unsigned len = (unsigned)op.geti("len");
            if (!op.has("key")) op.set("key", Bytes(bs, 1));
            size_t cap = mant ? 16 : (size_t)3 * bs;        // the library may read min(len, max legal) bytes
            fit("key", len < cap ? len : cap);
            if (mant && !op.has("rounds")) op.set("rounds", 6);
            if (kind == PM && !op.has("mode")) op.set("mode", 1);
            bool ok = !nullobj && s.live && op.getb("key") && (mant ? (len == 16 && op.geti("rounds") >= 5 && op.geti("rounds") <= 8 && (unsigned long long)op.geti("rounds") <= 8)
                                                                     : (len >= (unsigned)bs && len <= (unsigned)(bs * (fn == "set_key" ? 3 : 2))));
            if (ok) { s.keyed = true; s.tweaked = mant || fn == "set_tweaked_key"; }
        } else if (fn == "set_tweak") {
            if (!kind_is_ctr(kind)) continue;
            unsigned len = (unsigned)op.geti("len");
            if (!op.has("tweak")) op.setnull("tweak");
            fit("tweak", len < (unsigned)bs ? len : (unsigned)bs);
            bool lenok = mant ? len == 8 : (len >= 1 && len <= (unsigned)bs);
            // tweak on a plain / missing key: result undefined by the docs (kept only for the purely differential C06)
            if (g_prop != 6 && !nullobj && s.live && lenok && !(s.keyed && s.tweaked) && !mant) continue;
        } else if (fn == "set_counter") {
            if (!kind_is_ctr(kind)) continue;
            unsigned len = (unsigned)op.geti("len");
            if (!op.has("ctr")) op.setnull("ctr");
            fit("ctr", len < (unsigned)bs ? len : (unsigned)bs);
        } else if (fn == "encrypt") {
            if (!kind_is_ctr(kind)) continue;
            if (!nullobj && s.live && !s.keyed && !(op.isnull("in") || op.geti("onull"))) continue;   // data through an un-keyed object: undefined
            const Bytes *in = op.getb("in");
            if (in && in->size() > 1200) { Bytes c(in->begin(), in->begin() + 1200); op.set("in", c); }
            if (!in && !op.isnull("in")) op.set("in", Bytes(5, 7));
            if (op.isnull("in")) { long long n = op.geti("n"); if (n < 0 || n > 1200) op.set("n", (long long)((unsigned long long)n % 1201)); }
        } else if (fn == "enc" || fn == "dec" || fn == "crypt") {
            if (!kind_is_par(kind)) continue;
            if ((kind == PM) != (fn == "crypt")) continue;
            const Bytes *in = op.getb("in");
            if (!in) continue;
            if (in->size() > 1200) { Bytes c(in->begin(), in->begin() + 1200); op.set("in", c); in = op.getb("in"); }
            if (kind == PM) { Bytes t = op.getb("tweak") ? *op.getb("tweak") : Bytes(); t.resize(in->size(), 0x33); op.set("tweak", t); }
            if (!nullobj && s.live && !s.keyed && in->size() % bs == 0) continue;              // un-keyed: undefined
        } else if (fn == "swap") { if (kind != PM) continue; }
        else continue;
        // offsets stay inside the executor's 0..63 window
        for (const char *k : {"io", "oo", "ko", "to", "co"}) if (op.has(k)) op.set(k, op.geti(k) & 63);
        q.push_back(op);
    }
    // recompute the inv=1 marks (used by C14's oracle) from the API model: a call is "invalid" iff the
    // documented contract says it returns 0 (or it is a void call on an object that is not live)
    if (q.size() < 2 || q.size() > 64) return false;
    Model m;
    for (auto &op : q) {
        MRec e = m.step1(op);
        std::vector<std::pair<std::string, Val>> kv;
        for (auto &x : op.kv) if (x.first != "inv") kv.push_back(x);
        op.kv = kv;
        std::string fn = op.name.substr(op.name.find('.') + 1);
        if (op.name.rfind("new.", 0) == 0 || e.unspec) continue;
        if (fn == "init" && op.geti("failat")) continue;     // a failing init is a fault, not an invalid call: it stays in the twin history
        bool inv = e.ret == 0;
        if (e.ret == RET_VOID) {
            long long si = op.geti("s", -1);
            inv = si < 0 || (size_t)si >= m.objs.size();
            if (!inv && fn == "cleanup") inv = false;      // cleanup is always legal
            else if (!inv) inv = !m.objs[(size_t)si].live;
        }
        if (inv) op.set("inv", 1);
    }
    p = q;
    return true;
}

static Op random_op(const Program &p) {
    // pick a slot declared in the program and invent an operation for it
    std::vector<int> kinds;
    for (auto &op : p) if (op.name.rfind("new.", 0) == 0) kinds.push_back(kind_of(op.name.substr(4)));
    if (kinds.empty()) return mkop("new.c128");
    int si = (int)rndn((uint32_t)kinds.size()); int kind = kinds[(size_t)si]; int bs = kind_bs(kind);
    bool ctr = kind_is_ctr(kind), mant = kind == CM || kind == PM;
    auto rb = [&](size_t n) { Bytes b(n); for (auto &v : b) v = (uint8_t)rnd(); if (rndn(4) == 0) for (auto &v : b) v = 0xff; return b; };
    static const char *cf[] = {"init", "cleanup", "set_key", "set_tweaked_key", "set_tweak", "set_counter", "encrypt", "encrypt", "encrypt"};
    static const char *pf[] = {"init", "cleanup", "set_key", "enc", "dec", "crypt", "swap", "enc", "crypt"};
    std::string fn = ctr ? cf[rndn(9)] : pf[rndn(9)];
    Op op = mkop(opn(kind, fn.c_str())); op.set("s", rndn(12) == 0 ? -1 : si);
    static const int lens[] = {0, 1, 7, 8, 9, 15, 16, 17, 24, 31, 32, 33, 48, 49, 0x7fffffff, -1};
    if (fn == "init") op.set("be", (int)(rndn(3) * 128));
    else if (fn == "set_key" || fn == "set_tweaked_key") { int len = rndn(3) ? bs * (1 + (int)rndn(3)) : lens[rndn(16)]; if (mant && rndn(3)) len = 16; op.set("key", rb((size_t)std::min<long long>((unsigned)len, 56))).set("len", len); if (mant) op.set("rounds", rndn(5) ? 5 + (int)rndn(4) : (int)rndn(12)); if (kind == PM) op.set("mode", (int)rndn(2)); if (rndn(10) == 0) op.setnull("key"); }
    else if (fn == "set_tweak") { int len = rndn(3) ? (mant ? 8 : 1 + (int)rndn((uint32_t)bs)) : lens[rndn(16)]; if (rndn(6) == 0) op.setnull("tweak"); else op.set("tweak", rb((size_t)std::min<long long>((unsigned)len, 32))); op.set("len", len); }
    else if (fn == "set_counter") { int len = rndn(3) ? (int)rndn((uint32_t)bs + 1) : lens[rndn(16)]; if (rndn(6) == 0) op.setnull("ctr"); else op.set("ctr", rb((size_t)std::min<long long>((unsigned)len, 32))); op.set("len", len); }
    else if (fn == "encrypt") { static const int ns[] = {0, 1, 7, 8, 15, 16, 17, 63, 64, 65, 127, 128, 129, 200, 333}; int n = ns[rndn(15)]; if (rndn(12) == 0) op.setnull("in").set("n", n); else op.set("in", rb((size_t)n)); if (rndn(12) == 0) op.set("onull", 1); if (rndn(3) == 0) op.set("ip", 1); op.set("io", (int)rndn(64)).set("oo", (int)rndn(64)); }
    else if (fn == "enc" || fn == "dec" || fn == "crypt") { size_t n = (size_t)rndn(20) * bs + (rndn(6) == 0 ? 1 + rndn((uint32_t)bs - 1) : 0); op.set("in", rb(n)); if (kind == PM) op.set("tweak", rb(n)); if (rndn(3) == 0) op.set("ip", 1); op.set("io", (int)rndn(64)).set("oo", (int)rndn(64)); }
    return op;
}

extern "C" size_t LLVMFuzzerCustomMutator(uint8_t *data, size_t size, size_t max_size, unsigned int seed) {
    rng_state = seed * 0x9e3779b97f4a7c15ULL + 0x7f4a7c15;
    Program p = parse(std::string((const char *)data, size));
    if (p.empty()) {
        static const char *k[] = {"c128", "c64", "cm", "p128", "p64", "pm"};
        p.push_back(mkop(std::string("new.") + k[rndn(6)]).set("fill", rndn(2) ? 0 : 0xa5));
    }
    int nmut = 1 + (int)rndn(3);
    for (int m = 0; m < nmut; ++m) {
        uint32_t w = rndn(10);
        size_t i = p.size() > 1 ? 1 + rndn((uint32_t)p.size() - 1) : 0;
        if (w <= 2 || p.size() < 3) p.insert(p.begin() + (long)std::min(p.size(), i + 1), random_op(p));
        else if (w == 3 && p.size() > 2) p.erase(p.begin() + (long)i);
        else if (w == 4) p.insert(p.begin() + (long)i, p[i]);
        else if (w == 5 && p.size() > 3) { size_t j = 1 + rndn((uint32_t)p.size() - 1); std::swap(p[i], p[j]); }
        else if (i < p.size() && !p[i].kv.empty()) {
            auto &kv = p[i].kv[rndn((uint32_t)p[i].kv.size())];
            if (kv.second.kind == Val::INT) { static const long long d[] = {1, -1, 8, -8, 16, 64}; kv.second.i = rndn(3) ? kv.second.i + d[rndn(6)] : (long long)rndn(70); }
            else if (kv.second.kind == Val::BYTES && !kv.second.b.empty()) {
                Bytes &b = kv.second.b; uint32_t x = rndn(5);
                if (x == 0) b[rndn((uint32_t)b.size())] ^= (uint8_t)(1u << rndn(8));
                else if (x == 1) for (size_t k = b.size() - 1 - rndn((uint32_t)b.size()); k < b.size(); ++k) b[k] = 0xff;
                else if (x == 2) b.resize(b.size() + 1 + rndn(17), (uint8_t)rnd());
                else if (x == 3) b.resize(rndn((uint32_t)b.size()));
                else for (auto &v : b) v = (uint8_t)rnd();
            }
        }
    }
    if (p.size() > 48) p.resize(48);
    std::string s = ser(p);
    if (s.size() > max_size) return size;
    memcpy(data, s.data(), s.size());
    return s.size();
}

static void dump_stats() {
    if (g_out.empty()) return;
    g_st.extra["fuzz_executions"] = (double)g_execs;
    g_st.extra["fuzz_inputs_rejected_by_repair"] = (double)g_rejected;
    g_st.dump(g_out); g_st.dump_hashes(g_out + ".hashes");
}

extern "C" int LLVMFuzzerInitialize(int *, char ***) {
    const char *pr = getenv("SKV_FZ_PROP"); if (pr) g_prop = atoi(pr);
    const char *o = getenv("SKV_FZ_OUT"); if (o) g_out = o;
    const char *cur = getenv("SKV_FZ_CUR"); if (cur) g_cur_fd = open(cur, O_WRONLY | O_CREAT | O_TRUNC, 0644);
    std::string st = ref::selftest();
    if (!st.empty()) { fprintf(stderr, "SKV-INFRA: %s\n", st.c_str()); _exit(2); }
    g_h = g_prop == 5 ? (Harness *)new C05() : g_prop == 14 ? (Harness *)new C14() : g_prop == 15 ? (Harness *)new C15() : (Harness *)new C06();
    atexit(dump_stats);
    return 0;
}

extern "C" int LLVMFuzzerTestOneInput(const uint8_t *data, size_t size) {
    Program p = parse(std::string((const char *)data, size));
    ++g_execs;
    if (!repair(p)) { ++g_rejected; return -1; }
    if (g_prop == 5) {
        // C05's oracle is only defined on its structured domain: key and tweak in place before data, and a
        // set_counter after every key / tweak change; programs outside it are judged by C06 / C14 instead
        bool ok = true, need_counter = false, seen_data = false;
        for (auto &op : p) {
            std::string fn = op.name.substr(op.name.find('.') + 1);
            if (op.geti("inv")) { ok = false; break; }
            if ((fn == "set_key" || fn == "set_tweaked_key" || fn == "set_tweak") && seen_data) need_counter = true;
            if (fn == "set_counter") need_counter = false;
            if (fn == "encrypt") { if (need_counter) { ok = false; break; } seen_data = true; }
            if (fn == "init" && seen_data) { ok = false; break; }
            if (!kind_is_ctr(kind_of(op.name.substr(0, op.name.find('.')))) && op.name.rfind("new.", 0) != 0) { ok = false; break; }
        }
        if (!ok) { ++g_rejected; return -1; }
    }
    if (g_cur_fd >= 0) { std::string t = ser(p); ssize_t w = pwrite(g_cur_fd, t.data(), t.size(), 0); (void)w; if (ftruncate(g_cur_fd, (off_t)t.size()) != 0) {} }
    std::string r = g_h->run(p, g_st);
    if (r.find("bad-op") != std::string::npos) { ++g_rejected; return -1; }   // a shape repair() did not normalise: not the library's fault
    if (!r.empty()) {
        fprintf(stderr, "SKV-FAIL: %s\n", r.c_str());
        const char *f = getenv("SKV_FZ_FAIL");
        if (f) { write_file(f, ser(p)); write_file(std::string(f) + ".msg", r + "\n"); }
        dump_stats();
        __builtin_trap();
    }
    return 0;
}
