// Table of the public API (50 functions) plus the internal symbols the checks
// observe and the verification hooks.  One table per linked / loaded build
// configuration of the library.
#pragma once
#include <dlfcn.h>
#include <cstdint>
#include <cstdio>
#include <cstdlib>
#include <string>

#include "mantis-cipher.h"
#include "mantis-parallel.h"
#include "skinny128-cipher.h"
#include "skinny128-parallel.h"
#include "skinny64-cipher.h"
#include "skinny64-parallel.h"

#define SKV_API_FUNCS(X)                                                                                     \
    X(int, skinny128_set_key, (Skinny128Key_t *, const void *, unsigned))                                    \
    X(int, skinny128_set_tweaked_key, (Skinny128TweakedKey_t *, const void *, unsigned))                     \
    X(int, skinny128_set_tweak, (Skinny128TweakedKey_t *, const void *, unsigned))                           \
    X(void, skinny128_ecb_encrypt, (void *, const void *, const Skinny128Key_t *))                           \
    X(void, skinny128_ecb_decrypt, (void *, const void *, const Skinny128Key_t *))                           \
    X(int, skinny128_ctr_init, (Skinny128CTR_t *))                                                           \
    X(void, skinny128_ctr_cleanup, (Skinny128CTR_t *))                                                       \
    X(int, skinny128_ctr_set_key, (Skinny128CTR_t *, const void *, unsigned))                                \
    X(int, skinny128_ctr_set_tweaked_key, (Skinny128CTR_t *, const void *, unsigned))                        \
    X(int, skinny128_ctr_set_tweak, (Skinny128CTR_t *, const void *, unsigned))                              \
    X(int, skinny128_ctr_set_counter, (Skinny128CTR_t *, const void *, unsigned))                            \
    X(int, skinny128_ctr_encrypt, (void *, const void *, size_t, Skinny128CTR_t *))                          \
    X(int, skinny64_set_key, (Skinny64Key_t *, const void *, unsigned))                                      \
    X(int, skinny64_set_tweaked_key, (Skinny64TweakedKey_t *, const void *, unsigned))                       \
    X(int, skinny64_set_tweak, (Skinny64TweakedKey_t *, const void *, unsigned))                             \
    X(void, skinny64_ecb_encrypt, (void *, const void *, const Skinny64Key_t *))                             \
    X(void, skinny64_ecb_decrypt, (void *, const void *, const Skinny64Key_t *))                             \
    X(int, skinny64_ctr_init, (Skinny64CTR_t *))                                                             \
    X(void, skinny64_ctr_cleanup, (Skinny64CTR_t *))                                                         \
    X(int, skinny64_ctr_set_key, (Skinny64CTR_t *, const void *, unsigned))                                  \
    X(int, skinny64_ctr_set_tweaked_key, (Skinny64CTR_t *, const void *, unsigned))                          \
    X(int, skinny64_ctr_set_tweak, (Skinny64CTR_t *, const void *, unsigned))                                \
    X(int, skinny64_ctr_set_counter, (Skinny64CTR_t *, const void *, unsigned))                              \
    X(int, skinny64_ctr_encrypt, (void *, const void *, size_t, Skinny64CTR_t *))                            \
    X(int, mantis_set_key, (MantisKey_t *, const void *, unsigned, unsigned, int))                           \
    X(int, mantis_set_tweak, (MantisKey_t *, const void *, unsigned))                                        \
    X(void, mantis_swap_modes, (MantisKey_t *))                                                              \
    X(void, mantis_ecb_crypt, (void *, const void *, const MantisKey_t *))                                   \
    X(void, mantis_ecb_crypt_tweaked, (void *, const void *, const void *, const MantisKey_t *))             \
    X(int, mantis_ctr_init, (MantisCTR_t *))                                                                 \
    X(void, mantis_ctr_cleanup, (MantisCTR_t *))                                                             \
    X(int, mantis_ctr_set_key, (MantisCTR_t *, const void *, unsigned, unsigned))                            \
    X(int, mantis_ctr_set_tweak, (MantisCTR_t *, const void *, unsigned))                                    \
    X(int, mantis_ctr_set_counter, (MantisCTR_t *, const void *, unsigned))                                  \
    X(int, mantis_ctr_encrypt, (void *, const void *, size_t, MantisCTR_t *))                                \
    X(int, skinny128_parallel_ecb_init, (Skinny128ParallelECB_t *))                                          \
    X(void, skinny128_parallel_ecb_cleanup, (Skinny128ParallelECB_t *))                                      \
    X(int, skinny128_parallel_ecb_set_key, (Skinny128ParallelECB_t *, const void *, unsigned))               \
    X(int, skinny128_parallel_ecb_encrypt, (void *, const void *, size_t, const Skinny128ParallelECB_t *))   \
    X(int, skinny128_parallel_ecb_decrypt, (void *, const void *, size_t, const Skinny128ParallelECB_t *))   \
    X(int, skinny64_parallel_ecb_init, (Skinny64ParallelECB_t *))                                            \
    X(void, skinny64_parallel_ecb_cleanup, (Skinny64ParallelECB_t *))                                        \
    X(int, skinny64_parallel_ecb_set_key, (Skinny64ParallelECB_t *, const void *, unsigned))                 \
    X(int, skinny64_parallel_ecb_encrypt, (void *, const void *, size_t, const Skinny64ParallelECB_t *))     \
    X(int, skinny64_parallel_ecb_decrypt, (void *, const void *, size_t, const Skinny64ParallelECB_t *))     \
    X(int, mantis_parallel_ecb_init, (MantisParallelECB_t *))                                                \
    X(void, mantis_parallel_ecb_cleanup, (MantisParallelECB_t *))                                            \
    X(int, mantis_parallel_ecb_set_key, (MantisParallelECB_t *, const void *, unsigned, unsigned, int))      \
    X(void, mantis_parallel_ecb_swap_modes, (MantisParallelECB_t *))                                         \
    X(int, mantis_parallel_ecb_crypt, (void *, const void *, const void *, size_t, const MantisParallelECB_t *))

// internal symbols (observed, and the two probes called by C13)
extern "C" {
int _skinny_has_vec128(void);
int _skinny_has_vec256(void);
extern const char _skinny128_ctr_vec128[], _skinny128_ctr_vec256[], _skinny64_ctr_vec128[], _mantis_ctr_vec128[];
extern int _skinny_verif_vec_limit;
extern void (*_skinny_verif_cpuid)(uint32_t leaf, uint32_t subleaf, int subleaf_valid, uint32_t regs[4]);
extern uint32_t (*_skinny_verif_xcr0)(void);
}

namespace skv {

typedef void (*cpuid_hook_t)(uint32_t, uint32_t, int, uint32_t *);
typedef uint32_t (*xcr0_hook_t)(void);

struct Api {
    std::string name;
#define X(r, n, a) r(*n) a;
    SKV_API_FUNCS(X)
#undef X
    int (*has_vec128)(void);
    int (*has_vec256)(void);
    int *vec_limit;
    cpuid_hook_t *cpuid_hook;
    xcr0_hook_t *xcr0_hook;
    const void *vt_s128_ctr_vec128, *vt_s128_ctr_vec256, *vt_s64_ctr_vec128, *vt_m_ctr_vec128;
};

#ifndef SKV_NO_STATIC_API
// the configuration linked statically into this binary
static inline Api static_api() {
    Api a;
    a.name = "static";
#define X(r, n, a_) a.n = &::n;
    SKV_API_FUNCS(X)
#undef X
    a.has_vec128 = &::_skinny_has_vec128;
    a.has_vec256 = &::_skinny_has_vec256;
    a.vec_limit = &::_skinny_verif_vec_limit;
    a.cpuid_hook = &::_skinny_verif_cpuid;
    a.xcr0_hook = &::_skinny_verif_xcr0;
    a.vt_s128_ctr_vec128 = _skinny128_ctr_vec128;
    a.vt_s128_ctr_vec256 = _skinny128_ctr_vec256;
    a.vt_s64_ctr_vec128 = _skinny64_ctr_vec128;
    a.vt_m_ctr_vec128 = _mantis_ctr_vec128;
    return a;
}
#endif

// a configuration built as a shared object and loaded privately (C12)
static inline bool dl_api(const std::string &path, const std::string &name, Api &a, std::string &err) {
    void *h = dlopen(path.c_str(), RTLD_NOW | RTLD_LOCAL);
    if (!h) { err = dlerror(); return false; }
    a.name = name;
    bool ok = true;
#define X(r, n, a_) a.n = (r(*) a_)dlsym(h, #n); if (!a.n) { ok = false; err = "missing " #n; }
    SKV_API_FUNCS(X)
#undef X
    a.has_vec128 = (int (*)(void))dlsym(h, "_skinny_has_vec128");
    a.has_vec256 = (int (*)(void))dlsym(h, "_skinny_has_vec256");
    a.vec_limit = (int *)dlsym(h, "_skinny_verif_vec_limit");
    a.cpuid_hook = (cpuid_hook_t *)dlsym(h, "_skinny_verif_cpuid");
    a.xcr0_hook = (xcr0_hook_t *)dlsym(h, "_skinny_verif_xcr0");
    a.vt_s128_ctr_vec128 = dlsym(h, "_skinny128_ctr_vec128");
    a.vt_s128_ctr_vec256 = dlsym(h, "_skinny128_ctr_vec256");
    a.vt_s64_ctr_vec128 = dlsym(h, "_skinny64_ctr_vec128");
    a.vt_m_ctr_vec128 = dlsym(h, "_mantis_ctr_vec128");
    if (!a.has_vec128 || !a.has_vec256 || !a.vec_limit) { ok = false; err = "missing internal symbol / hook"; }
    return ok;
}

}  // namespace skv
