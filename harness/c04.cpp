// C04 — tweakable SKINNY: TK1 = tweak (domain bit set), result depends only on key and latest
// tweak.  Stateful tweak histories on caller-owned tweaked schedules and through the CTR tweak
// API, compared with the specification model; the public `tweak` field must equal the model's.
#include "gens.hpp"
#include "model.hpp"
using namespace skv;

struct C04 : Harness {
    Api api = static_api();
    // values used earlier in the history are re-submitted now and then (also as prefixes): legal, and exactly
    // what an "unchanged value" fast path or a cache would mishandle
    static Bytes reuse_or(std::vector<Bytes> &pool, size_t n, int percent) {
        if (!pool.empty() && *chance(percent)) { Bytes b = *rc::gen::elementOf(pool); b.resize(n, 0); return b; }
        Bytes b = *gbytes(n); pool.push_back(b); return b;
    }
    static Op gen_tweak(int kind, int bs, std::vector<Bytes> &pool) {
        Op t = mkop(opn(kind, "set_tweak"));
        int tl = *rc::gen::weightedOneOf<int>({{3, rc::gen::just(bs)}, {3, irange(1, bs)}});
        t.set("s", 0);
        if (*chance(20)) t.setnull("tweak"); else t.set("tweak", reuse_or(pool, (size_t)tl, 30));
        t.set("len", tl).set("to", *goffset());
        return t;
    }
    rc::Gen<Program> gen() override {
        return rc::gen::exec([]() {
            Program p;
            std::vector<Bytes> keys, tweaks;
            bool viactr = *chance(35);
            bool is128 = *chance(50);
            int bs = is128 ? 16 : 8;
            if (!viactr) {
                int kind = is128 ? T128 : T64;
                p.push_back(mkop(std::string("new.") + kname(kind)).set("fill", *rc::gen::element(0, 0xA5, 0xFF)));
                int nops = *irange(2, 14);
                bool keyed = false;
                for (int i = 0; i < nops; ++i) {
                    int w = keyed ? *irange(0, 9) : 0;
                    if (w == 0) {
                        int len = *gkeylen(bs, 2, 10);
                        p.push_back(mkop(opn(kind, "set_tweaked_key")).set("s", 0).set("key", reuse_or(keys, (size_t)len, 35)).set("len", len).set("ko", *goffset()));
                        keyed = true;
                    } else if (w <= 5) { if (*chance(1) && *chance(30)) gen_storm(p, kind, 0, true); else p.push_back(gen_tweak(kind, bs, tweaks)); }
                    else {
                        Op e = mkop(opn(kind, w <= 7 ? "enc" : "dec"));
                        e.set("s", 0).set("in", *gbytes(bs)).set("io", *goffset()).set("oo", *goffset());
                        p.push_back(e);
                    }
                }
                Op e = mkop(opn(kind, "enc")); e.set("s", 0).set("in", *gbytes(bs)); p.push_back(e);
            } else {
                int kind = is128 ? C128 : C64;
                auto bes = backends_for(kind);
                p.push_back(mkop(std::string("new.") + kname(kind)));
                p.push_back(mkop(opn(kind, "init")).set("s", 0).set("be", *rc::gen::elementOf(bes)));
                int len = *gkeylen(bs, 2, 10);
                p.push_back(mkop(opn(kind, "set_tweaked_key")).set("s", 0).set("key", reuse_or(keys, (size_t)len, 0)).set("len", len));
                int rounds = *irange(1, 4);
                for (int r = 0; r < rounds; ++r) {
                    // a fresh key - or the very same key again - resets the tweak to zero
                    if (r > 0 && *chance(35)) { int l2 = *chance(60) ? len : *gkeylen(bs, 2, 10); p.push_back(mkop(opn(kind, "set_tweaked_key")).set("s", 0).set("key", reuse_or(keys, (size_t)l2, 60)).set("len", l2)); }
                    int nt = *irange(0, 3);
                    for (int i = 0; i < nt; ++i) p.push_back(gen_tweak(kind, bs, tweaks));
                    if (*chance(1) && *chance(50)) gen_storm(p, kind, 0, true);
                    // (usually an explicit counter; sometimes none, so that the data call continues the stream the way the
                    // documentation of the CTR tweak API describes: left-over keystream of the old tweak must not be used)
                    if (r == 0 || *chance(70)) p.push_back(gen_set_counter(kind, 0));
                    int n = *rc::gen::element(bs, 3 * bs + 1, 4 * bs, 8 * bs + 3, 16 * bs);
                    p.push_back(mkop(opn(kind, "encrypt")).set("s", 0).set("in", *gdata(n)));
                }
            }
            return p;
        });
    }
    std::string run(const Program &p, Stats &st) override {
        Exec ex(api);
        Transcript t = ex.run(p);
        Model m;
        std::string d = cmp_model(p, t, m.run(p), true);
        if (!d.empty()) return d;
        if (!st.shrinking) {
            int changes = 0; bool shortnull = false, nt = false;
            for (size_t i = 0; i < p.size(); ++i) {
                const Op &op = p[i];
                if (op.name.find("set_tweaked_key") != std::string::npos) changes = 0, shortnull = false;
                if (op.name.find(".set_tweak") != std::string::npos && t[i].ret == 1) {
                    ++changes;
                    if (op.isnull("tweak") || op.geti("len") < kind_bs(kind_of(op.name.substr(0, op.name.find('.'))))) shortnull = true;
                }
                if (op.name.find(".enc") != std::string::npos || op.name.find(".dec") != std::string::npos)
                    if (changes >= 2 && shortnull) nt = true;
            }
            st.count(p[0].name.substr(4));
            if (nt) st.count(">=2-tweak-changes-one-short-or-null");
            for (auto &op : p) if (op.isnull("tweak")) { st.count("null-tweak"); break; }
            st.case_done(ser(p), nt);
        }
        return "";
    }
};
int main(int argc, char **argv) { C04 h; return skv_main(argc, argv, h); }
