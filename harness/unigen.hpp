// Union generator: programs over every object kind in the style of the C01–C07 / C10
// generators, optionally with invalid calls — used by C11 and C12.
#pragma once
#include "gens.hpp"

namespace skv {

static inline Program gen_union_program(bool invalid, int inbetween) {
    int w = *irange(0, 9);
    Program p;
    if (w <= 3) {
        int kind = *rc::gen::element((int)K128, (int)K64, (int)T128, (int)T64, (int)MK);
        int bs = kind_bs(kind);
        p.push_back(mkop(std::string("new.") + kname(kind)).set("fill", *rc::gen::element(0, 0xA5, 0xFF)));
        int rounds = *irange(1, 3);
        for (int r = 0; r < rounds; ++r) {
            if (kind == MK) {
                p.push_back(mkop("mk.set_key").set("s", 0).set("key", *gbytes(16)).set("len", 16).set("rounds", *irange(5, 8)).set("mode", *irange(0, 1)).set("ko", *goffset()));
                int nt = *irange(0, 2);
                for (int i = 0; i < nt; ++i) { Op t = mkop("mk.set_tweak"); t.set("s", 0); if (*chance(20)) t.setnull("tweak"); else t.set("tweak", *gbytes(8)); t.set("len", 8).set("to", *goffset()); p.push_back(t); }
                if (*chance(30)) p.push_back(mkop("mk.swap").set("s", 0));
                p.push_back(mkop("mk.crypt").set("s", 0).set("in", *gbytes(8)).set("io", *goffset()).set("oo", *goffset()));
                p.push_back(mkop("mk.crypt_tw").set("s", 0).set("in", *gbytes(8)).set("tweak", *gbytes(8)).set("to", *goffset()));
                if (invalid && *chance(30)) p.push_back(mkop("mk.set_key").set("s", 0).set("inv", 1).set("key", *gbytes(16)).set("len", *rc::gen::element(0, 15, 17)).set("rounds", 6).set("mode", 1));
            } else if (kind == T128 || kind == T64) {
                int len = *gkeylen(bs, 2, inbetween);
                p.push_back(mkop(opn(kind, "set_tweaked_key")).set("s", 0).set("key", *gbytes(len)).set("len", len).set("ko", *goffset()));
                int nt = *irange(0, 3);
                for (int i = 0; i < nt; ++i) { int tl = *irange(1, bs); Op t = mkop(opn(kind, "set_tweak")); t.set("s", 0); if (*chance(20)) t.setnull("tweak"); else t.set("tweak", *gbytes(tl)); t.set("len", tl).set("to", *goffset()); p.push_back(t); }
                p.push_back(mkop(opn(kind, "enc")).set("s", 0).set("in", *gbytes(bs)).set("io", *goffset()).set("oo", *goffset()));
                p.push_back(mkop(opn(kind, "dec")).set("s", 0).set("in", *gbytes(bs)));
                if (invalid && *chance(30)) p.push_back(mkop(opn(kind, "set_tweak")).set("s", 0).set("inv", 1).set("tweak", *gbytes(bs)).set("len", *rc::gen::element(0, bs + 1)));
            } else {
                int len = *gkeylen(bs, 3, inbetween);
                p.push_back(mkop(opn(kind, "set_key")).set("s", 0).set("key", *gbytes(len)).set("len", len).set("ko", *goffset()));
                p.push_back(mkop(opn(kind, "enc")).set("s", 0).set("in", *gbytes(bs)).set("io", *goffset()).set("oo", *goffset()));
                Op d = mkop(opn(kind, "dec")); d.set("s", 0).set("in", *gbytes(bs));
                if (*chance(30)) d.set("ov", *irange(-(bs - 1), bs - 1));
                p.push_back(d);
                if (invalid && *chance(30)) p.push_back(mkop(opn(kind, "set_key")).set("s", 0).set("inv", 1).set("key", *gbytes(bs)).set("len", *rc::gen::element(0, bs - 1)));
            }
        }
        return p;
    }
    HistGen g;
    g.o.invalid = invalid; g.o.lifecycle = *chance(40); g.o.midstream = true; g.o.inbetween = inbetween; g.o.loose_tweak = true; g.o.max_rep = 600;
    int kind = *rc::gen::element((int)C128, (int)C128, (int)C64, (int)CM, (int)P128, (int)P64, (int)PM);
    g.add_slot(kind, 256, *rc::gen::element(0, 0, 0xFF, 0xA5));
    int n = *irange(3, 24);
    for (int i = 0; i < n; ++i) g.step(0);
    if (g.ss[0].live && *chance(60)) g.cleanup(0);
    return g.p;
}

static inline uint64_t transcript_digest(const Transcript &t) {
    std::string s;
    for (auto &r : t) { s += rec_str(r); s += '|'; s += hex(r.img); s += '\n'; }
    return fnv64(s);
}

}  // namespace skv
