// C17 — cleanup erases all key-dependent state before releasing it.  Histories that key an
// object, process data and end in cleanup; the allocator monitor inspects every block at the
// moment the library calls free(): all requested bytes must be zero.
#include "lifecycle.hpp"
using namespace skv;

struct C17 : Harness {
    Api api = static_api();
    rc::Gen<Program> gen() override {
        return rc::gen::exec([]() {
            HistGen g;
            g.o.lifecycle = false; g.o.invalid = false; g.o.midstream = true;
            int kind = *rc::gen::element((int)C128, (int)C64, (int)CM, (int)P128, (int)P64, (int)PM);
            auto bes = backends_for(kind);
            g.add_slot(kind, *rc::gen::elementOf(bes), *rc::gen::element(0, 0xFF, 0xA5));
            // crowd: 2-20 further objects (any kind) alive while the object under test lives and dies, cleaned up in any
            // order afterwards - every one of them must be erased as well (a registry of live contexts that fills up, a
            // pool that hands back unwiped slots)
            int crowd = *chance(8) ? *irange(2, 20) : (*chance(15) ? 1 : 0);
            for (int c = 0; c < crowd; ++c) {
                int k2 = *chance(60) ? kind : *rc::gen::element((int)C128, (int)C64, (int)CM, (int)P128, (int)P64, (int)PM);
                int sl = g.add_slot(k2, *rc::gen::elementOf(backends_for(k2)), 0);
                g.init(sl); g.key(sl);
                if (*chance(50)) g.data(sl);
            }
            int rounds = *irange(1, 2);
            for (int r = 0; r < rounds; ++r) {
                int n = *irange(3, 14);
                for (int i = 0; i < n; ++i) g.step(0);
                if (g.ss[0].live) {
                    if (kind_is_ctr(kind) && g.ss[0].keyed) {
                        // leave a partially used batch behind so that buffered keystream is present
                        Op e = mkop(opn(kind, "encrypt")); e.set("s", 0).set("in", *gdata(*irange(1, 2 * kind_bs(kind) - 1)));
                        g.p.push_back(e);
                    }
                    g.cleanup(0);
                }
            }
            if (crowd) {
                std::vector<int> order; for (int c = 1; c <= crowd; ++c) order.push_back(c);
                order = *rc::gen::map(rc::gen::arbitrary<uint32_t>(), [order](uint32_t seed) { std::vector<int> o = order; uint64_t x = seed * 0x9e3779b97f4a7c15ULL + 1; for (size_t i = o.size(); i > 1; --i) { x ^= x << 13; x ^= x >> 7; x ^= x << 17; std::swap(o[i - 1], o[x % i]); } return o; });
                for (int sl : order) if (g.ss[sl].live) { if (*chance(30)) g.data(sl); g.cleanup(sl); }
            }
            return g.p;
        });
    }
    std::string run(const Program &p, Stats &st) override {
        MonHooks17 mh; mh.reset((int)(fnv64(ser(p)) % 9));
        ExecOptions eo; eo.hooks = &mh; eo.final_cleanup = false;
        Exec ex(api, eo);
        mh.ex = &ex;
        Transcript t = ex.run(p);
        for (size_t i = 0; i < t.size(); ++i)
            if (!t[i].err.empty()) return "op #" + std::to_string(i) + " [" + ser(p[i]).substr(0, 160) + "]: " + t[i].err;
        ex.finalize();
        if (skv_mon_nonzero()) return "final cleanup released a block that was not zero";
        if (skv_mon_live()) return "leak after cleanup";
        if (!st.shrinking) {
            int be = -1; for (auto &r : t) if (r.be >= 0) { be = r.be; break; }
            int nobj = 0; for (auto &op : p) if (op.name.rfind("new.", 0) == 0) ++nobj;
            if (nobj >= 9) st.count("crowd>=9-objects-alive"); else if (nobj > 1) st.count("crowd=2..8-objects-alive");
            std::string kb = p[0].name.substr(4) + "/be" + std::to_string(be);
            st.count("kind/" + kb);
            if (nobj == 1) for (size_t s : mh.block_sizes) st.count("context-size/" + kb + "=" + std::to_string(s));
            if (mh.rich_cleanups) st.count("cleanup-with->=64-nonzero-bytes-incl-last-64-bytes", mh.rich_cleanups);
            if (mh.rich_cleanups_notail) st.count("cleanup-with->=64-nonzero-bytes", mh.rich_cleanups_notail);
            st.extra["blocks_inspected_at_free"] += (double)skv_mon_frees();
            st.case_done(ser(p), mh.rich_cleanups + mh.rich_cleanups_notail > 0);
        }
        return "";
    }
};
int main(int argc, char **argv) { C17 h; return skv_main(argc, argv, h); }
