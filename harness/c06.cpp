// C06 — back-end independence: the same unconstrained API history executed on twin objects
// pinned to the generic / 128-bit / 256-bit back end must give identical return values and
// output bytes.  Pure differential: no reference model involved.
#include "gens.hpp"
using namespace skv;

struct C06 : Harness {
    Api api = static_api();
    bool unkeyed = false;
    void configure(const std::map<std::string, std::string> &kv) override { if (kv.count("unkeyed")) unkeyed = kv.at("unkeyed") == "1"; }
    rc::Gen<Program> gen() override {
        bool uk = unkeyed;
        return rc::gen::exec([uk]() {
            HistGen g;
            g.o.invalid = true; g.o.midstream = true; g.o.lifecycle = true; g.o.unkeyed_data = uk; g.o.loose_tweak = true;
            int kind = *rc::gen::element((int)C128, (int)C128, (int)C64, (int)CM, (int)P128, (int)P64, (int)PM);
            g.add_slot(kind, 256, *rc::gen::element(0, 0, 0xFF, 0xA5, 0x01));
            int n = *irange(3, 40);
            for (int i = 0; i < n; ++i) g.step(0);
            return g.p;
        });
    }
    std::string run(const Program &p, Stats &st) override {
        int kind = kind_of(p[0].name.substr(4));
        std::vector<int> bes = backends_for(kind);
        std::vector<Transcript> ts;
        std::vector<int> actual;
        for (int be : bes) {
            ExecOptions eo; eo.force_be = be;
            Exec ex(api, eo);
            ts.push_back(ex.run(p));
            int got = -1;
            for (auto &r : ts.back()) if (r.be >= 0) got = r.be;
            actual.push_back(got);
        }
        CmpOpts co; co.ret = co.out = co.err = true;
        for (size_t k = 1; k < ts.size(); ++k) {
            std::string d = cmp_transcripts(p, ts[0], ts[k], co, "generic", bes[k] == 128 ? "vec128" : "vec256");
            if (!d.empty()) return d;
        }
        if (!st.shrinking) {
            // classification
            bool mid = false, inv_between = false, default_data = false;
            bool have_counter = false; size_t pos = 0; bool data_before = false; bool pending_inv = false;
            size_t batch = kind == C128 ? 64 : 64;
            for (size_t i = 0; i < p.size(); ++i) {
                const Op &op = p[i];
                std::string fn = op.name.substr(op.name.find('.') + 1);
                bool ok = ts[0][i].ret == 1;
                if (fn == "init" && ok) { have_counter = false; pos = 0; data_before = false; }
                if (fn == "set_counter" && ok) { have_counter = true; pos = 0; }
                if (op.geti("inv")) { if (data_before) pending_inv = true; continue; }
                if ((fn == "set_key" || fn == "set_tweaked_key" || fn == "set_tweak") && ok && kind_is_ctr(kind)) {
                    if (pos % batch != 0) mid_pending = true;
                    pos = 0;
                }
                if ((fn == "encrypt" || fn == "enc" || fn == "dec" || fn == "crypt") && ok) {
                    const Bytes *in = op.getb("in");
                    size_t n = in ? in->size() : 0;
                    if (n) {
                        if (mid_pending) mid = true;
                        if (pending_inv) inv_between = true;
                        if (!have_counter && kind_is_ctr(kind)) default_data = true;
                        data_before = true;
                    }
                    pos += n;
                    mid_pending = false; pending_inv = false;
                }
            }
            mid_pending = false;
            st.count(std::string("kind/") + kname(kind));
            std::string avail;
            for (size_t k = 0; k < bes.size(); ++k) if (actual[k] == bes[k]) avail += std::to_string(bes[k]) + ",";
            st.count("backends-exercised/" + avail);
            if (mid) st.count("midstream-key-or-tweak-change-then-data");
            if (inv_between) st.count("invalid-call-between-data-calls");
            if (default_data) st.count("data-with-default-counter");
            st.case_done(ser(p), mid || inv_between || default_data);
        }
        return "";
    }
    bool mid_pending = false;
};
#ifndef SKV_NO_MAIN
int main(int argc, char **argv) { C06 h; return skv_main(argc, argv, h); }
#endif
