// Executable model of the documented API contract on top of the specification
// models in ref.hpp: what every call must return and produce.  Where the
// documentation defines nothing (data through an un-keyed object, a tweak set on
// a plain key, ...) the record is marked `unspec` and the oracles skip it.
#pragma once
#include <string>
#include <vector>

#include "exec.hpp"
#include "prog.hpp"
#include "ref.hpp"

namespace skv {

struct MRec {
    int ret = RET_VOID;
    bool has_out = false;
    Bytes out;
    std::string pub;      // expected public field (tweak=...) or empty = not predicted
    bool unspec = false;  // behaviour not defined by the contract: do not compare
};

class Model {
public:
    struct Obj {
        int kind = -1;
        // schedule state (also used for the cipher inside CTR / parallel objects)
        bool keyed = false, tweaked = false;
        Bytes key;     // padded to a primary size
        Bytes tweak;   // bs bytes (Mantis: 8)
        int rounds = 0; bool dec = false;   // Mantis
        // handle state
        bool live = false;
        Bytes counter; // bs bytes
        unsigned used = 0;   // bytes of the current keystream block already consumed (0..bs-1), block = E(counter)
        bool undefined = false;   // object went through an unspecified transition
    };
    std::vector<Obj> objs;

    std::vector<MRec> run(const Program &p) {
        objs.clear();
        std::vector<MRec> t;
        for (const Op &op : p) { MRec r; step(op, r); t.push_back(r); }
        return t;
    }

    MRec step1(const Op &op) { MRec r; step(op, r); return r; }

    static Bytes pad_key(const Bytes &key, unsigned len, int bs) {
        Bytes k(key.begin(), key.begin() + (len <= key.size() ? len : key.size()));
        size_t prim = ((k.size() + bs - 1) / bs) * bs;
        k.resize(prim, 0);
        return k;
    }

    // E under the object's current key/tweak (block cipher direction: encrypt unless dec)
    static Bytes block(const Obj &o, int kind, const Bytes &in, bool decrypt, const Bytes *tw_override = nullptr) {
        if (kind == MK || kind == CM || kind == PM) {
            const Bytes &tw = tw_override ? *tw_override : o.tweak;
            return ref::mantis_crypt(in, o.key, tw, o.rounds, o.dec);
        }
        if (o.tweaked) return ref::skinny_tweaked(in, o.key, o.tweak, decrypt);
        return decrypt ? ref::skinny_decrypt(in, o.key) : ref::skinny_encrypt(in, o.key);
    }

    static void inc_counter(Bytes &c) {
        for (size_t i = c.size(); i-- > 0;) { if (++c[i] != 0) break; }
    }

private:
    Obj *obj(const Op &op) {
        long long s = op.geti("s", -1);
        if (s < 0 || (size_t)s >= objs.size()) return nullptr;
        return &objs[(size_t)s];
    }

    void out_fill(MRec &r, size_t n) { r.has_out = true; r.out.assign(n, Exec::OUT_FILL); }

    bool set_key_common(const Op &op, Obj *o, int bs, int maxblocks, MRec &r) {
        unsigned len = (unsigned)op.geti("len");
        const Bytes *key = op.getb("key");
        if (!o || !key || len < (unsigned)bs || len > (unsigned)(bs * maxblocks)) { r.ret = 0; return false; }
        if (key->size() < len) { r.unspec = true; return false; }   // generator error: buffer shorter than len
        o->key = pad_key(*key, len, bs);
        o->keyed = true;
        r.ret = 1;
        return true;
    }

    void step(const Op &op, MRec &r) {
        size_t dot = op.name.find('.');
        std::string pre = op.name.substr(0, dot), fn = dot == std::string::npos ? "" : op.name.substr(dot + 1);
        if (pre == "new") { Obj o; o.kind = kind_of(fn); objs.push_back(o); return; }
        int kind = kind_of(pre);
        Obj *o = obj(op);
        int bs = kind_bs(kind);
        if (o && o->undefined) { r.unspec = true; note_out(op, fn, kind, r); return; }
        if (kind_is_sched(kind)) sched(kind, bs, op, fn, o, r);
        else if (kind_is_ctr(kind)) ctr(kind, bs, op, fn, o, r);
        else par(kind, bs, op, fn, o, r);
    }
    // for unspecified records we still need has_out shape to be ignorable; nothing to do
    void note_out(const Op &, const std::string &, int, MRec &) {}

    void tweak_pub(Obj *o, MRec &r) { if (o && o->keyed && o->tweaked) r.pub = "tweak=" + hex(o->tweak); }

    void sched(int kind, int bs, const Op &op, const std::string &fn, Obj *o, MRec &r) {
        if (kind == MK) { mantis_sched(op, fn, o, r); return; }
        bool tk = kind == T128 || kind == T64;
        if (fn == "set_key") {
            if (set_key_common(op, o, bs, 3, r)) { o->tweaked = false; }
        } else if (fn == "set_tweaked_key") {
            if (set_key_common(op, o, bs, 2, r)) { o->tweaked = true; o->tweak.assign(bs, 0); }
        } else if (fn == "set_tweak") {
            unsigned len = (unsigned)op.geti("len");
            if (!o || len < 1 || len > (unsigned)bs) { r.ret = 0; }
            else if (!o->keyed || !o->tweaked) { r.unspec = true; o->undefined = true; }
            else {
                const Bytes *t = op.getb("tweak");
                Bytes nt(bs, 0);
                if (t) {
                    if (t->size() < len) { r.unspec = true; return; }
                    for (unsigned i = 0; i < len; ++i) nt[i] = (*t)[i];
                }
                o->tweak = nt;
                r.ret = 1;
            }
        } else if (fn == "enc" || fn == "dec") {
            const Bytes *in = op.getb("in");
            r.has_out = true;
            if (!o || !o->keyed || !in) { r.unspec = true; return; }
            r.out = block(*o, kind, *in, fn == "dec");
        }
        if (tk) tweak_pub(o, r);
    }

    void mantis_sched(const Op &op, const std::string &fn, Obj *o, MRec &r) {
        if (fn == "set_key") {
            unsigned len = (unsigned)op.geti("len"), rounds = (unsigned)op.geti("rounds");
            const Bytes *key = op.getb("key");
            if (!o || !key || len != 16 || rounds < 5 || rounds > 8) { r.ret = 0; return; }
            if (key->size() < 16) { r.unspec = true; return; }
            o->key.assign(key->begin(), key->begin() + 16);
            o->rounds = (int)rounds; o->dec = op.geti("mode") != MANTIS_ENCRYPT;
            o->tweak.assign(8, 0); o->keyed = true; r.ret = 1;
        } else if (fn == "set_tweak") {
            unsigned len = (unsigned)op.geti("len");
            if (!o || len != 8) { r.ret = 0; return; }
            const Bytes *t = op.getb("tweak");
            if (t && t->size() < 8) { r.unspec = true; return; }
            // (setting the tweak of an un-keyed schedule is allowed by the code but the next set_key resets it)
            o->tweak = t ? Bytes(t->begin(), t->begin() + 8) : Bytes(8, 0);
            r.ret = 1;
        } else if (fn == "swap") {
            if (o) o->dec = !o->dec;
        } else if (fn == "crypt" || fn == "crypt_tw") {
            const Bytes *in = op.getb("in");
            r.has_out = true;
            if (!o || !o->keyed || !in) { r.unspec = true; return; }
            if (fn == "crypt") r.out = block(*o, MK, *in, false);
            else { const Bytes *t = op.getb("tweak"); if (!t) { r.unspec = true; return; } r.out = block(*o, MK, *in, false, t); }
        }
    }

    // discard the rest of a partially used keystream block (key / tweak / counter change)
    static void drop_partial(Obj *o) { if (o->used) { inc_counter(o->counter); o->used = 0; } }

    void ctr(int kind, int bs, const Op &op, const std::string &fn, Obj *o, MRec &r) {
        if (fn == "init") {
            if (!o) { r.ret = 0; return; }
            if (o->live) { r.unspec = true; o->undefined = true; return; }   // init of a live object: caller misuse
            if (op.geti("failat") == 1) { r.ret = 0; r.pub = "v0c0"; return; }   // injected allocation failure: inert object
            r.ret = 1; o->live = true; o->keyed = false; o->tweaked = false;
            o->counter.assign(bs, 0); o->used = 0; o->tweak.assign(bs, 0);
            r.pub = "v1c1";
            return;
        }
        if (fn == "cleanup") { if (o) { o->live = false; o->keyed = false; r.pub = "v0c0"; } return; }
        if (fn == "encrypt") {
            const Bytes *in = op.getb("in");
            bool onull = op.geti("onull") != 0;
            size_t n = in ? in->size() : (size_t)op.geti("n");
            bool ip = op.geti("ip") != 0 && in && !onull;
            if (!onull) out_fill(r, n);
            if (ip) r.out = *in;   // in place: a failing call must leave the data as it was
            if (!o || !o->live || !in || onull) { r.ret = 0; return; }
            if (!o->keyed) { r.unspec = true; o->undefined = true; return; }
            r.ret = 1;
            r.out.resize(n);
            size_t i = 0;
            Bytes ks;
            if (o->used) ks = block(*o, kind, prev_counter(o->counter), false);
            while (i < n) {
                if (o->used == 0) ks = block(*o, kind, o->counter, false);
                while (i < n && o->used < (unsigned)bs) { r.out[i] = (*in)[i] ^ ks[o->used]; ++i; ++o->used; }
                if (o->used == (unsigned)bs) { o->used = 0; inc_counter(o->counter); }
                else { /* partial block: the counter is conceptually still at this block */ }
            }
            // representation: when used > 0 the block in use is E(counter) and counter has NOT been advanced;
            // see prev_counter() note below
            return;
        }
        if (!o || !o->live) { r.ret = 0; return; }
        if (fn == "set_key") {
            if (kind == CM) {
                unsigned len = (unsigned)op.geti("len"), rounds = (unsigned)op.geti("rounds");
                const Bytes *key = op.getb("key");
                if (!key || len != 16 || rounds < 5 || rounds > 8) { r.ret = 0; return; }
                if (key->size() < 16) { r.unspec = true; return; }
                o->key.assign(key->begin(), key->begin() + 16); o->rounds = (int)rounds; o->dec = false;
                o->tweak.assign(8, 0); o->keyed = true; r.ret = 1;
                drop_partial_adv(o);
            } else if (set_key_common(op, o, bs, 3, r)) { o->tweaked = false; drop_partial_adv(o); }
        } else if (fn == "set_tweaked_key") {
            if (set_key_common(op, o, bs, 2, r)) { o->tweaked = true; o->tweak.assign(bs, 0); drop_partial_adv(o); }
        } else if (fn == "set_tweak") {
            unsigned len = (unsigned)op.geti("len");
            const Bytes *t = op.getb("tweak");
            if (kind == CM) {
                if (len != 8) { r.ret = 0; return; }
                if (t && t->size() < 8) { r.unspec = true; return; }
                o->tweak = t ? Bytes(t->begin(), t->begin() + 8) : Bytes(8, 0);
                r.ret = 1; drop_partial_adv(o);
                if (!o->keyed) { /* tweak before key: the next set_key resets the tweak to zero (mantis_set_key) */ }
            } else {
                if (len < 1 || len > (unsigned)bs) { r.ret = 0; return; }
                if (!o->keyed || !o->tweaked) { r.unspec = true; o->undefined = true; return; }
                Bytes nt(bs, 0);
                if (t) { if (t->size() < len) { r.unspec = true; return; } for (unsigned i = 0; i < len; ++i) nt[i] = (*t)[i]; }
                o->tweak = nt; r.ret = 1; drop_partial_adv(o);
            }
        } else if (fn == "set_counter") {
            unsigned len = (unsigned)op.geti("len");
            const Bytes *c = op.getb("ctr");
            if (len > (unsigned)bs) { r.ret = 0; return; }
            Bytes nc(bs, 0);
            if (c) { if (c->size() < len) { r.unspec = true; return; } for (unsigned i = 0; i < len; ++i) nc[bs - len + i] = (*c)[i]; }
            o->counter = nc; o->used = 0; r.ret = 1;
        }
    }
    // In this model `counter` always names the block currently in use (used > 0) or the next block (used == 0),
    // so the keystream block for a partially used block is E(counter) itself.
    static Bytes prev_counter(const Bytes &c) { return c; }
    static void drop_partial_adv(Obj *o) { drop_partial(o); }

    void par(int kind, int bs, const Op &op, const std::string &fn, Obj *o, MRec &r) {
        if (fn == "init") {
            if (!o) { r.ret = 0; return; }
            if (o->live) { r.unspec = true; o->undefined = true; return; }
            if (op.geti("failat") == 1) { r.ret = 0; return; }
            r.ret = 1; o->live = true; o->keyed = false; o->tweaked = false;
            return;
        }
        if (fn == "cleanup") { if (o) { o->live = false; o->keyed = false; } return; }
        if (fn == "swap") { if (o && o->live && o->keyed) o->dec = !o->dec; return; }
        if (fn == "set_key") {
            if (!o || !o->live) { r.ret = 0; return; }
            if (kind == PM) {
                unsigned len = (unsigned)op.geti("len"), rounds = (unsigned)op.geti("rounds");
                const Bytes *key = op.getb("key");
                if (!key || len != 16 || rounds < 5 || rounds > 8) { r.ret = 0; return; }
                if (key->size() < 16) { r.unspec = true; return; }
                o->key.assign(key->begin(), key->begin() + 16); o->rounds = (int)rounds; o->dec = op.geti("mode") != MANTIS_ENCRYPT;
                o->tweak.assign(8, 0); o->keyed = true; r.ret = 1;
            } else set_key_common(op, o, bs, 3, r);
            return;
        }
        if (fn == "enc" || fn == "dec" || fn == "crypt") {
            const Bytes *in = op.getb("in");
            if (!in) { r.unspec = true; return; }
            size_t n = in->size();
            bool ip = op.geti("ip") != 0;
            r.has_out = true;
            if (!o || !o->live || n % bs != 0) {
                r.ret = 0;
                if (ip) r.out = *in; else r.out.assign(n, Exec::OUT_FILL);
                return;
            }
            if (!o->keyed) { r.unspec = true; return; }
            r.ret = 1;
            r.out.clear();
            const Bytes *tw = op.getb("tweak");
            for (size_t i = 0; i < n; i += bs) {
                Bytes b(in->begin() + i, in->begin() + i + bs), c;
                if (kind == PM) { Bytes t(tw->begin() + i, tw->begin() + i + 8); c = block(*o, PM, b, false, &t); }
                else c = block(*o, kind, b, fn == "dec");
                r.out.insert(r.out.end(), c.begin(), c.end());
            }
        }
    }
};

// compare an executed transcript with the model's expectation; "" if consistent
static inline std::string cmp_model(const Program &p, const Transcript &x, const std::vector<MRec> &m,
                                    bool check_pub = true, bool check_err = true) {
    if (x.size() != m.size()) return "transcript length differs";
    for (size_t i = 0; i < x.size(); ++i) {
        const Rec &a = x[i]; const MRec &b = m[i];
        const char *what = nullptr;
        if (check_err && !a.err.empty()) what = "monitor";
        else if (b.unspec) continue;
        else if (a.ret != b.ret) what = "return value";
        else if (b.has_out && a.has_out && a.out != b.out) what = "output bytes";
        else if (b.has_out != a.has_out) what = "output presence";
        else if (check_pub && !b.pub.empty() && a.pub.substr(0, a.pub.find(';')) != b.pub) what = "public field";   // (';...' = monitor annotations)
        if (what) {
            std::string s = std::string("op #") + std::to_string(i) + " [" + ser(p[i]).substr(0, 240) + "]: " + what + ": library{" +
                            rec_str(a).substr(0, 500) + "} model{ret=" + (b.ret == RET_VOID ? std::string("void") : std::to_string(b.ret));
            if (b.has_out) s += " out=" + hex(b.out).substr(0, 400);
            if (!b.pub.empty()) s += " pub=" + b.pub;
            return s + "}";
        }
    }
    return "";
}

}  // namespace skv
