// C19 — the Arduino port (portable C++ path, compiled unchanged on the host) computes the same
// ciphers as the C library.  Stateful histories per class: setKey / setTweak(bytes|NULL) /
// swapModes / encryptBlock / decryptBlock / clear, and CTR<T>: setKey / setIV / encrypt / decrypt with
// arbitrary cuts / setCounterSize.  Oracle: the C library driven by the corresponding calls
// (specification model used as tie-breaker in the message only).
#include "gens.hpp"
#include "model.hpp"
#include "CTR.h"
#include "Mantis8.h"
#include "Skinny128.h"
#include "Skinny64.h"
using namespace skv;

static const char *const kClass[] = {"Skinny128_128", "Skinny128_256", "Skinny128_384", "Skinny128_256_Tweaked", "Skinny128_384_Tweaked",
                                     "Skinny64_64", "Skinny64_128", "Skinny64_192", "Skinny64_128_Tweaked", "Skinny64_192_Tweaked", "Mantis8",
                                     "CTR<Skinny128_128>", "CTR<Skinny128_256>", "CTR<Skinny128_384>", "CTR<Skinny128_256_Tweaked>", "CTR<Skinny128_384_Tweaked>"};
static int cls_bs(int c) { return (c <= 4 || c >= 11) ? 16 : 8; }
static int cls_keylen(int c) {
    static const int kl[] = {16, 32, 48, 16, 32, 8, 16, 24, 8, 16, 16, 16, 32, 48, 16, 32};
    return kl[c];
}
static bool cls_tweaked(int c) { return c == 3 || c == 4 || c == 8 || c == 9 || c == 14 || c == 15; }

struct C19 : Harness {
    Api api = static_api();

    rc::Gen<Program> gen() override {
        return rc::gen::exec([]() {
            Program p;
            int c = *irange(0, 15);
            int bs = cls_bs(c), kl = cls_keylen(c);
            p.push_back(mkop("class").set("c", c));
            bool keyed = false;
            int n = *irange(3, 24);
            for (int i = 0; i < n; ++i) {
                int w = keyed ? *irange(0, 19) : 0;
                if (w == 0) { p.push_back(mkop("setKey").set("key", *gbytes(kl)).set("len", kl)); keyed = true; if (c >= 11) p.push_back(mkop("setIV").set("iv", *gcounter(16)).set("len", 16)); }
                else if (w == 1) { p.push_back(mkop("clear")); keyed = false; }
                else if (c >= 11) {
                    if (w <= 4) p.push_back(mkop("setIV").set("iv", *gcounter(16)).set("len", 16));
                    else if (w == 5 && false) p.push_back(mkop("setCounterSize").set("n", *irange(1, 16)));
                    else {
                        // now and then one call of more than 65536 blocks (the AVR code base counts in 8- and 16-bit types)
                        int n = *irange(0, 499) == 0 ? (1 << 20) + *irange(0, 40) : *gchunk(16);
                        p.push_back(mkop(*chance(50) ? "encrypt" : "decrypt").set("in", *gdata((size_t)n)));
                    }
                } else if (w <= 6 && (cls_tweaked(c) || c == 10)) {
                    Op t = mkop("setTweak");
                    if (*chance(20)) t.setnull("tweak"); else t.set("tweak", *gbytes(bs));
                    t.set("len", bs); p.push_back(t);
                } else if (w <= 8 && c == 10) p.push_back(mkop("swapModes"));
                else {
                    // BlockCipher documents that input may overlap output: now and then the two share a buffer at a generated
                    // distance (|ov| < block size, 0 = in place) and alignment
                    Op e = mkop(*chance(50) ? "encryptBlock" : "decryptBlock"); e.set("in", *gbytes(bs));
                    if (*chance(25)) e.set("ov", *irange(-(bs - 1), bs - 1)).set("al", *irange(0, 15)).set("ovl", 1);
                    p.push_back(e);
                }
            }
            return p;
        });
    }

    // the C side: one object of the corresponding variant
    struct CSide {
        const Api &a; int c;
        Skinny128Key_t k128; Skinny128TweakedKey_t t128; Skinny64Key_t k64; Skinny64TweakedKey_t t64; MantisKey_t mk; Skinny128CTR_t ctr; bool ctr_live = false;
        CSide(const Api &api, int cls) : a(api), c(cls) { memset(&ctr, 0, sizeof ctr); }
        ~CSide() { if (ctr_live) a.skinny128_ctr_cleanup(&ctr); }
        bool setKey(const Bytes &key) {
            unsigned n = (unsigned)key.size();
            if (c <= 2) return a.skinny128_set_key(&k128, key.data(), n);
            if (c <= 4) return a.skinny128_set_tweaked_key(&t128, key.data(), n);
            if (c <= 7) return a.skinny64_set_key(&k64, key.data(), n);
            if (c <= 9) return a.skinny64_set_tweaked_key(&t64, key.data(), n);
            if (c == 10) return a.mantis_set_key(&mk, key.data(), n, 8, MANTIS_ENCRYPT);
            if (!ctr_live) { if (!a.skinny128_ctr_init(&ctr)) return false; ctr_live = true; }
            return c <= 13 ? a.skinny128_ctr_set_key(&ctr, key.data(), n) : a.skinny128_ctr_set_tweaked_key(&ctr, key.data(), n);
        }
        bool setTweak(const Bytes *t, unsigned len) {
            if (c == 3 || c == 4) return a.skinny128_set_tweak(&t128, t ? t->data() : nullptr, len);
            if (c == 8 || c == 9) return a.skinny64_set_tweak(&t64, t ? t->data() : nullptr, len);
            return a.mantis_set_tweak(&mk, t ? t->data() : nullptr, len);
        }
        void block(const Bytes &in, Bytes &out, bool dec) {
            out.assign(in.size(), 0);
            if (c <= 2) (dec ? a.skinny128_ecb_decrypt : a.skinny128_ecb_encrypt)(out.data(), in.data(), &k128);
            else if (c <= 4) (dec ? a.skinny128_ecb_decrypt : a.skinny128_ecb_encrypt)(out.data(), in.data(), &t128.ks);
            else if (c <= 7) (dec ? a.skinny64_ecb_decrypt : a.skinny64_ecb_encrypt)(out.data(), in.data(), &k64);
            else if (c <= 9) (dec ? a.skinny64_ecb_decrypt : a.skinny64_ecb_encrypt)(out.data(), in.data(), &t64.ks);
            else a.mantis_ecb_crypt(out.data(), in.data(), &mk);
        }
    };

    template <class T> static BlockCipher *mk() { return new T(); }

    std::string run(const Program &p, Stats &st) override {
        int c = (int)p[0].geti("c");
        int bs = cls_bs(c);
        BlockCipher *bc = nullptr; CTRCommon *ctr = nullptr; Skinny128_Tweaked *tw128 = nullptr; Skinny64_Tweaked *tw64 = nullptr; Mantis8 *m8 = nullptr;
        switch (c) {
        case 0: bc = new Skinny128_128(); break; case 1: bc = new Skinny128_256(); break; case 2: bc = new Skinny128_384(); break;
        case 3: bc = tw128 = new Skinny128_256_Tweaked(); break; case 4: bc = tw128 = new Skinny128_384_Tweaked(); break;
        case 5: bc = new Skinny64_64(); break; case 6: bc = new Skinny64_128(); break; case 7: bc = new Skinny64_192(); break;
        case 8: bc = tw64 = new Skinny64_128_Tweaked(); break; case 9: bc = tw64 = new Skinny64_192_Tweaked(); break;
        case 10: bc = m8 = new Mantis8(); break;
        case 11: ctr = new CTR<Skinny128_128>(); break; case 12: ctr = new CTR<Skinny128_256>(); break; case 13: ctr = new CTR<Skinny128_384>(); break;
        case 14: ctr = new CTR<Skinny128_256_Tweaked>(); break; case 15: ctr = new CTR<Skinny128_384_Tweaked>(); break;
        }
        CSide cs(api, c);
        std::string res;
        int tweaks_since_block = 0; bool nt = false, swapped_after_tweak = false, tweak_seen = false;
        for (size_t i = 1; i < p.size() && res.empty(); ++i) {
            const Op &op = p[i];
            std::string where = "op #" + std::to_string(i) + " [" + std::string(kClass[c]) + "::" + ser(op).substr(0, 160) + "]: ";
            if (op.name == "setKey") {
                const Bytes &k = *op.getb("key");
                bool ra = ctr ? ctr->setKey(k.data(), k.size()) : bc->setKey(k.data(), k.size());
                bool rc_ = cs.setKey(k);
                if (ra != rc_) res = where + "accepts=" + std::to_string(ra) + " but the C library accepts=" + std::to_string(rc_);
                tweaks_since_block = 0; tweak_seen = false;
            } else if (op.name == "setTweak") {
                const Bytes *t = op.getb("tweak"); unsigned len = (unsigned)op.geti("len");
                bool ra = tw128 ? tw128->setTweak(t ? t->data() : nullptr, len) : tw64 ? tw64->setTweak(t ? t->data() : nullptr, len) : m8->setTweak(t ? t->data() : nullptr, len);
                bool rc_ = cs.setTweak(t, len);
                if (ra != rc_) res = where + "accepts=" + std::to_string(ra) + " but the C library accepts=" + std::to_string(rc_);
                ++tweaks_since_block; tweak_seen = true;
            } else if (op.name == "swapModes") { m8->swapModes(); api.mantis_swap_modes(&cs.mk); if (tweak_seen) swapped_after_tweak = true; }
            else if (op.name == "clear") { if (ctr) ctr->clear(); else bc->clear(); }
            else if (op.name == "encryptBlock" || op.name == "decryptBlock") {
                const Bytes &in = *op.getb("in");
                Bytes a(in.size()), b;
                bool dec = op.name == "decryptBlock";
                if (op.geti("ovl")) {
                    alignas(16) uint8_t buf[96];
                    memset(buf, 0xEE, sizeof buf);
                    uint8_t *ip = buf + 32 + op.geti("al"), *opp = ip + op.geti("ov");
                    memcpy(ip, in.data(), in.size());
                    if (dec) bc->decryptBlock(opp, ip); else bc->encryptBlock(opp, ip);
                    memcpy(a.data(), opp, a.size());
                } else if (dec) bc->decryptBlock(a.data(), in.data()); else bc->encryptBlock(a.data(), in.data());
                cs.block(in, b, dec);
                if (a != b) res = where + "Arduino " + hex(a) + " != C library " + hex(b);
                if (tweaks_since_block >= 2 || swapped_after_tweak) nt = true;
                tweaks_since_block = 0;
            } else if (op.name == "setIV") {
                const Bytes &iv = *op.getb("iv");
                bool ra = ctr->setIV(iv.data(), iv.size());
                bool rc_ = api.skinny128_ctr_set_counter(&cs.ctr, iv.data(), (unsigned)iv.size());
                if (ra != rc_) res = where + "accepts=" + std::to_string(ra) + " but the C library accepts=" + std::to_string(rc_);
            } else if (op.name == "encrypt" || op.name == "decrypt") {
                const Bytes &in = *op.getb("in");
                Bytes a(in.size()), b(in.size());
                if (op.name == "encrypt") ctr->encrypt(a.data(), in.data(), in.size()); else ctr->decrypt(a.data(), in.data(), in.size());
                uint8_t dummy = 0;
                int r = api.skinny128_ctr_encrypt(in.empty() ? &dummy : b.data(), in.empty() ? &dummy : in.data(), in.size(), &cs.ctr);
                if (r != 1) res = where + "C library CTR call failed";
                else if (a != b) { size_t k = 0; while (k < a.size() && a[k] == b[k]) ++k; res = where + "CTR streams differ at byte " + std::to_string(k) + " of " + std::to_string(a.size()); }
                if (in.size() % 16) nt = true;
                if (in.size() >= (1u << 20) && !st.shrinking) st.count("ctr-call>=1MiB");
            }
        }
        delete bc; delete ctr;
        if (!res.empty()) return res;
        if (!st.shrinking) { st.count(std::string("class/") + kClass[c]); st.case_done(ser(p), nt); (void)bs; }
        return "";
    }
};
int main(int argc, char **argv) { C19 h; return skv_main(argc, argv, h); }
