// C18 — thread safety: no hidden shared state; read-only objects may be shared.
// Generated scenarios: 2-8 threads, each running a generated program on its own objects
// (starting with concurrent init calls), while any subset also uses, read-only, key schedules
// and keyed parallel-ECB objects set up before the threads start.  Built with
// -fsanitize=thread (library and harness).  Oracles: no ThreadSanitizer report, and every
// thread's transcript equals the transcript of the same program run alone sequentially.
#include <pthread.h>
#include <atomic>
#include "gens.hpp"
using namespace skv;

static std::atomic<int> g_tsan_reports{0};
extern "C" void __tsan_on_report(void *) { g_tsan_reports.fetch_add(1); }
// positive control: a deliberate race in harness code
static int g_racy;
static void *racy_thread(void *) { for (int i = 0; i < 1000; ++i) g_racy = g_racy + 1; return nullptr; }

struct ThreadJob { const Api *api; Program prog; Exec *shared; Transcript out; pthread_barrier_t *bar; };
static void *thread_main(void *arg) {
    ThreadJob *j = (ThreadJob *)arg;
    ExecOptions eo; eo.no_pin = true;
    Exec ex(*j->api, eo);
    ex.shared = j->shared;
    if (j->bar) pthread_barrier_wait(j->bar);
    j->out = ex.run(j->prog);
    return nullptr;
}

struct C18 : Harness {
    Api api = static_api();
    std::string selftest() override {
        std::string s = ref::selftest();
        if (!s.empty()) return s;
        int before = g_tsan_reports.load();
        pthread_t a, b;
        pthread_create(&a, nullptr, racy_thread, nullptr); pthread_create(&b, nullptr, racy_thread, nullptr);
        pthread_join(a, nullptr); pthread_join(b, nullptr);
        if (g_tsan_reports.load() == before) return "positive control: ThreadSanitizer did not report a deliberate data race (not a TSan build?)";
        g_tsan_reports.store(0);
        return "";
    }

    rc::Gen<Program> gen() override {
        return rc::gen::exec([]() {
            Program p;
            int be = *rc::gen::element(0, 128, 256);
            p.push_back(mkop("scenario").set("be", be));
            // shared, read-only objects set up before the threads start
            int nshared = *irange(0, 3);
            std::vector<int> skinds;
            for (int i = 0; i < nshared; ++i) {
                int kind = *rc::gen::element((int)K128, (int)K64, (int)T128, (int)T64, (int)MK, (int)P128, (int)P64, (int)PM);
                int bs = kind_bs(kind);
                skinds.push_back(kind);
                p.push_back(mkop(std::string("new.") + kname(kind)).set("t", -1));
                if (kind_is_par(kind)) p.push_back(mkop(opn(kind, "init")).set("s", i).set("t", -1));
                if (kind == MK || kind == PM) p.push_back(mkop(opn(kind, "set_key")).set("s", i).set("t", -1).set("key", *gbytes(16)).set("len", 16).set("rounds", *irange(5, 8)).set("mode", *irange(0, 1)));
                else if (kind == T128 || kind == T64) { p.push_back(mkop(opn(kind, "set_tweaked_key")).set("s", i).set("t", -1).set("key", *gbytes(bs)).set("len", bs)); p.push_back(mkop(opn(kind, "set_tweak")).set("s", i).set("t", -1).set("tweak", *gbytes(bs)).set("len", bs)); }
                else { int len = bs * *irange(1, 3); p.push_back(mkop(opn(kind, "set_key")).set("s", i).set("t", -1).set("key", *gbytes(len)).set("len", len)); }
                // the rest of the object's single-threaded life before it is shared: mode swaps (an odd number leaves
                // work that an implementation might have deferred to the first use), a stored tweak, sometimes a first use
                if (kind == MK || kind == PM) { int sw = *rc::gen::weightedOneOf<int>({{4, rc::gen::just(0)}, {4, rc::gen::just(1)}, {1, rc::gen::just(2)}, {1, rc::gen::just(3)}}); for (int k = 0; k < sw; ++k) p.push_back(mkop(opn(kind, "swap")).set("s", i).set("t", -1)); }
                if (kind == MK && *chance(50)) p.push_back(mkop("mk.set_tweak").set("s", i).set("t", -1).set("tweak", *gbytes(8)).set("len", 8));
                if (*chance(25)) {
                    Op e;
                    if (kind_is_par(kind)) { size_t nb = (size_t)*irange(1, 12) * bs; e = mkop(opn(kind, kind == PM ? "crypt" : "enc")); e.set("in", *gblocks(nb, (size_t)bs)); if (kind == PM) e.set("tweak", *gblocks(nb, 8)); }
                    else if (kind == MK) { e = mkop("mk.crypt"); e.set("in", *gbytes(8)); }
                    else { e = mkop(opn(kind, "enc")); e.set("in", *gbytes(bs)); }
                    e.set("s", i).set("t", -1);
                    p.push_back(e);
                }
            }
            int nthreads = *irange(2, 8);
            for (int t = 0; t < nthreads; ++t) {
                HistGen g;
                g.o.invalid = false; g.o.lifecycle = *chance(30); g.o.midstream = true;
                int nslots = *irange(1, 2);
                for (int i = 0; i < nslots; ++i) g.add_slot(*rc::gen::element((int)C128, (int)C64, (int)CM, (int)P128, (int)P64, (int)PM), 256);
                for (int i = 0; i < nslots; ++i) g.init(i);            // concurrent initialisations (CPU detection)
                int n = *irange(3, 14);
                for (int i = 0; i < n; ++i) {
                    if (nshared && *chance(40)) {
                        int si = *irange(0, nshared - 1); int kind = skinds[si]; int bs = kind_bs(kind);
                        Op e;
                        if (kind_is_par(kind)) { size_t nb = (size_t)*irange(1, 12) * bs; e = mkop(opn(kind, kind == PM ? "crypt" : (*chance(50) ? "enc" : "dec"))); e.set("in", *gblocks(nb, (size_t)bs)); if (kind == PM) e.set("tweak", *gblocks(nb, 8)); }
                        else if (kind == MK) { e = mkop(*chance(50) ? "mk.crypt" : "mk.crypt_tw"); e.set("in", *gbytes(8)); if (e.name == "mk.crypt_tw") e.set("tweak", *gbytes(8)); }
                        else { e = mkop(opn(kind, *chance(50) ? "enc" : "dec")); e.set("in", *gbytes(bs)); }
                        e.set("s", si).set("sh", 1);
                        g.p.push_back(e);
                    } else g.step(*irange(0, nslots - 1));
                }
                for (auto &op : g.p) { Op o = op; o.set("t", t); p.push_back(o); }
            }
            return p;
        });
    }

    std::string run(const Program &p, Stats &st) override {
        int be = (int)p[0].geti("be", 256);
        *api.vec_limit = be;                         // written once, before any thread exists
        Program setup; std::map<int, Program> per;
        for (size_t i = 1; i < p.size(); ++i) { long long t = p[i].geti("t", -1); if (t < 0) setup.push_back(p[i]); else per[(int)t].push_back(p[i]); }
        ExecOptions eo; eo.no_pin = true; eo.final_cleanup = false;
        std::string res;
        {
            Exec shared(api, eo);
            Transcript ts = shared.run(setup);
            int before = g_tsan_reports.load();
            // concurrent run
            size_t n = per.size();
            pthread_barrier_t bar; pthread_barrier_init(&bar, nullptr, (unsigned)n);
            std::vector<ThreadJob> jobs; jobs.reserve(n);
            for (auto &kv : per) jobs.push_back(ThreadJob{&api, kv.second, &shared, {}, &bar});
            std::vector<pthread_t> th(n);
            for (size_t i = 0; i < n; ++i) pthread_create(&th[i], nullptr, thread_main, &jobs[i]);
            for (size_t i = 0; i < n; ++i) pthread_join(th[i], nullptr);
            pthread_barrier_destroy(&bar);
            int reports = g_tsan_reports.load() - before;
            // sequential reference, run *after* the concurrent phase so that nothing the library might cache
            // has been warmed up by a single-threaded run first
            std::vector<Transcript> seq;
            for (auto &kv : per) { ThreadJob j{&api, kv.second, &shared, {}, nullptr}; thread_main(&j); seq.push_back(j.out); }
            if (reports > 0) res = "ThreadSanitizer reported " + std::to_string(reports) + " data race(s) in this scenario";
            for (size_t i = 0; i < n && res.empty(); ++i) {
                CmpOpts co; co.img = true; co.pub = true;
                std::string d = cmp_transcripts(jobs[i].prog, seq[i], jobs[i].out, co, "sequential", "concurrent");
                if (!d.empty()) res = "thread " + std::to_string(i) + ": results differ from the sequential run: " + d;
            }
            shared.finalize();
        }
        *api.vec_limit = 256;
        if (!res.empty()) return res;
        if (!st.shrinking) {
            bool shared_use = false; for (auto &op : p) if (op.geti("sh")) shared_use = true;
            st.count("threads=" + std::to_string(per.size()));
            st.count("be-cap=" + std::to_string(be));
            if (shared_use) st.count("shared-read-only-object-used-by-threads");
            st.case_done(ser(p), per.size() >= 2);
        }
        return "";
    }
};
int main(int argc, char **argv) { C18 h; return skv_main(argc, argv, h); }
