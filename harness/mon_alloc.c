/* Allocator monitor.  The library objects (and only they) have calloc/malloc/free/realloc
   redirected to skv_* with objcopy, so harness and rapidcheck allocations are never counted.
   Keeps the live set with requested sizes, detects double / foreign free, can fail the k-th
   request, and inspects every block at the moment the library frees it (must be all zero). */
#include <stdint.h>
#include <stdlib.h>
#include <string.h>

#define SKV_MAXBLK 4096
typedef struct { void *p; size_t n; unsigned long id; void *base; } blk_t;
static blk_t live[SKV_MAXBLK];
static int nlive;
static unsigned long requests, fail_at, next_id;
static unsigned long ev_double, ev_foreign, ev_nonzero, ev_frees, ev_failed;
static size_t nonzero_first_off, nonzero_bytes, last_free_size;
static void *freed[64]; static int nfreed;
static int check_zero_on_free = 1;
/* placement of the blocks handed to the library: 0 = whatever the allocator gives; m = 1..8 = always at
   16 * (m - 1) bytes past a 128-byte boundary (malloc promises 16-byte alignment and nothing more, so every one of
   these is a placement a real allocator may produce: 128-aligned, 16 mod 32, 32 mod 64, 48 mod 64, 64 mod 128, ...).
   Deterministic, so that a failure that depends on the alignment of a block replays from its own case. */
static int align_mode;
void skv_mon_align_mode(int m) { align_mode = m; }

void skv_mon_reset(void) {
    /* blocks still live are the library's leak; forget them (they are reported by skv_mon_live first) */
    nlive = 0; requests = 0; fail_at = 0; ev_double = ev_foreign = ev_nonzero = ev_frees = ev_failed = 0; nfreed = 0;
    nonzero_first_off = 0; nonzero_bytes = 0; last_free_size = 0;
}
void skv_mon_fail_at(unsigned long k) { fail_at = k ? requests + k : 0; }
int skv_mon_live(void) { return nlive; }
unsigned long skv_mon_requests(void) { return requests; }
unsigned long skv_mon_double(void) { return ev_double; }
unsigned long skv_mon_foreign(void) { return ev_foreign; }
unsigned long skv_mon_nonzero(void) { return ev_nonzero; }
unsigned long skv_mon_frees(void) { return ev_frees; }
unsigned long skv_mon_failed(void) { return ev_failed; }
size_t skv_mon_nonzero_off(void) { return nonzero_first_off; }
size_t skv_mon_nonzero_bytes(void) { return nonzero_bytes; }
size_t skv_mon_last_free_size(void) { return last_free_size; }
void skv_mon_check_zero(int on) { check_zero_on_free = on; }
size_t skv_mon_live_size(int i) { return i < nlive ? live[i].n : 0; }

/* number of non-zero bytes in the live block that contains `inner` (0 if none); *size gets its size */
size_t skv_mon_block_nonzero(const void *inner, size_t *size, size_t *tail_nonzero, size_t tail) {
    for (int i = 0; i < nlive; ++i) {
        const uint8_t *b = (const uint8_t *)live[i].p;
        if ((const uint8_t *)inner >= b && (const uint8_t *)inner < b + live[i].n) {
            size_t c = 0, t = 0;
            for (size_t k = 0; k < live[i].n; ++k) { if (b[k]) { ++c; if (k + tail >= live[i].n) ++t; } }
            if (size) *size = live[i].n;
            if (tail_nonzero) *tail_nonzero = t;
            return c;
        }
    }
    if (size) *size = 0;
    return 0;
}

static void *track(void *base, size_t n) {
    void *p = base;
    if (!base) return 0;
    if (align_mode) {
        uintptr_t a = ((uintptr_t)base + 127) & ~(uintptr_t)127;
        a += 16u * (unsigned)((align_mode - 1) & 7);
        p = (void *)a;
    }
    if (nlive < SKV_MAXBLK) { live[nlive].p = p; live[nlive].n = n; live[nlive].id = ++next_id; live[nlive].base = base; ++nlive; }
    return p;
}
static size_t pad(void) { return align_mode ? 256 : 0; }
static int should_fail(void) {
    ++requests;
    if (fail_at && requests == fail_at) { ++ev_failed; return 1; }
    return 0;
}
void *skv_calloc(size_t a, size_t b) { if (should_fail()) return 0; return track(calloc(1, a * b + pad()), a * b); }
void *skv_malloc(size_t n) {
    if (should_fail()) return 0;
    void *p = malloc(n + pad());
    if (p) memset(p, 0xA7, n + pad());   /* malloc'd memory is never zero by luck */
    return track(p, n);
}
void skv_free(void *p) {
    if (!p) return;
    ++ev_frees;
    for (int i = 0; i < nlive; ++i) {
        if (live[i].p == p) {
            const uint8_t *b = (const uint8_t *)p;
            last_free_size = live[i].n;
            if (check_zero_on_free) {
                size_t c = 0, first = 0;
                for (size_t k = 0; k < live[i].n; ++k) if (b[k]) { if (!c) first = k; ++c; }
                if (c) { if (!ev_nonzero) { nonzero_first_off = first; nonzero_bytes = c; } ++ev_nonzero; }
            }
            if (nfreed < 64) freed[nfreed++] = p;
            void *base = live[i].base;
            live[i] = live[--nlive];
            free(base);
            return;
        }
    }
    for (int i = 0; i < nfreed; ++i) if (freed[i] == p) { ++ev_double; return; }
    ++ev_foreign;   /* not ours: do not pass it on */
}
void *skv_realloc(void *p, size_t n) {
    if (!p) return skv_malloc(n);
    if (should_fail()) return 0;
    for (int i = 0; i < nlive; ++i) if (live[i].p == p) {
        void *q = skv_malloc(n);
        if (!q) return 0;
        memcpy(q, p, live[i].n < n ? live[i].n : n);
        --requests;
        skv_free(p);
        return q;
    }
    ++ev_foreign;
    return 0;
}
