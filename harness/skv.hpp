// Common harness glue: statistics, generator building blocks, and the main()
// shared by every rapidcheck-driven check (modes: gen / replay / selftest).
#pragma once
#include <fcntl.h>
#include <signal.h>
#include <sys/wait.h>
#include <unistd.h>

#include <rapidcheck.h>

#include <algorithm>
#include <functional>
#include <sstream>
#include <map>
#include <string>
#include <unordered_set>
#include <vector>

#include "prog.hpp"
#include "ref.hpp"

namespace skv {

// ------------------------------------------------------------------ statistics / evidence
struct Stats {
    uint64_t evaluations = 0;
    std::unordered_set<uint64_t> nontrivial;
    std::map<std::string, uint64_t> classes;
    std::vector<std::string> samples;
    std::map<std::string, double> extra;
    size_t max_hashes = 4000000;
    bool shrinking = false;   // set once a failure has been seen: further evaluations are shrink steps
    uint64_t last_digest = 0; // transcript digest of the last case (written to --digest)
    FILE *digest_file = nullptr;

    void count(const std::string &cls, uint64_t n = 1) { if (!shrinking) classes[cls] += n; }
    void case_done(const std::string &serialised, bool is_nontrivial) {
        if (shrinking) return;
        ++evaluations;
        if (digest_file) { uint64_t rec[2] = {fnv64(serialised), last_digest}; fwrite(rec, 8, 2, digest_file); }
        if (is_nontrivial) {
            if (nontrivial.size() < max_hashes) nontrivial.insert(fnv64(serialised));
            if (samples.size() < 3 && (evaluations % 97 == 1 || samples.empty())) samples.push_back(serialised.substr(0, 700));
        }
    }
    static std::string jstr(const std::string &s) {
        std::string o = "\"";
        for (unsigned char c : s) {
            if (c == '"' || c == '\\') { o += '\\'; o += (char)c; }
            else if (c == '\n') o += "\\n";
            else if (c < 32) { char b[8]; snprintf(b, sizeof b, "\\u%04x", c); o += b; }
            else o += (char)c;
        }
        return o + "\"";
    }
    void dump(const std::string &path) const {
        std::string s = "{\n \"evaluations\": " + std::to_string(evaluations) + ",\n \"distinct_nontrivial\": " + std::to_string(nontrivial.size()) + ",\n \"classes\": {";
        bool first = true;
        for (auto &p : classes) { s += first ? "" : ","; first = false; s += "\n  " + jstr(p.first) + ": " + std::to_string(p.second); }
        s += "\n },\n \"extra\": {";
        first = true;
        for (auto &p : extra) { s += first ? "" : ","; first = false; char b[64]; snprintf(b, sizeof b, "%.6g", p.second); s += "\n  " + jstr(p.first) + ": " + b; }
        s += "\n },\n \"samples\": [";
        first = true;
        for (auto &x : samples) { s += first ? "" : ","; first = false; s += "\n  " + jstr(x); }
        s += "\n ]\n}\n";
        write_file(path, s);
    }
    void dump_hashes(const std::string &path) const {
        std::vector<uint64_t> v(nontrivial.begin(), nontrivial.end());
        std::sort(v.begin(), v.end());
        FILE *f = fopen(path.c_str(), "wb");
        if (!f) return;
        if (!v.empty()) fwrite(v.data(), 8, v.size(), f);
        fclose(f);
    }
};

// ------------------------------------------------------------------ generator building blocks
static const int kNominal = 100;
static inline rc::Gen<int> irange(int lo, int hi) {   // inclusive
    return rc::gen::resize(kNominal, rc::gen::inRange<int>(lo, hi + 1));
}
static inline rc::Gen<bool> chance(int percent) {
    return rc::gen::map(irange(0, 99), [percent](int v) { return v >= 100 - percent; });   // shrinks towards false
}

// byte strings: mixture of uniform, sparse, constant, counting, ff-heavy
static inline rc::Gen<Bytes> gbytes(size_t n) {
    if (n == 0) return rc::gen::just(Bytes());
    auto uniform = rc::gen::container<Bytes>(n, rc::gen::arbitrary<uint8_t>());
    auto sparse = rc::gen::exec([n]() {
        Bytes b(n, 0);
        int bits = *irange(1, 3);
        for (int i = 0; i < bits; ++i) { int pos = *irange(0, (int)n * 8 - 1); b[pos / 8] |= (uint8_t)(1 << (pos % 8)); }
        return b;
    });
    auto constant = rc::gen::map(rc::gen::arbitrary<uint8_t>(), [n](uint8_t v) { return Bytes(n, v); });
    auto counting = rc::gen::map(rc::gen::arbitrary<uint8_t>(), [n](uint8_t v) { Bytes b(n); for (size_t i = 0; i < n; ++i) b[i] = (uint8_t)(v + i); return b; });
    auto seeded = rc::gen::map(rc::gen::arbitrary<uint32_t>(), [n](uint32_t seed) {
        Bytes b(n); uint64_t x = seed * 0x9e3779b97f4a7c15ULL + 0x1234567;
        for (size_t i = 0; i < n; ++i) { x ^= x << 13; x ^= x >> 7; x ^= x << 17; b[i] = (uint8_t)(x >> 32); }
        return b;
    });
    auto highbits = rc::gen::map(rc::gen::container<Bytes>(n, rc::gen::arbitrary<uint8_t>()), [](Bytes b) { for (auto &v : b) v |= 0x80; return b; });
    // word-structured values: every aligned 2-, 4- or 8-byte word is all-zero, all-one, a repeat of the previous word or random
    // ("skip when the word is zero", "equal halves", "nothing to do" shortcuts trigger on these, never on uniform bytes)
    auto wordy = rc::gen::exec([n]() {
        Bytes b(n, 0);
        size_t w = (size_t)*rc::gen::element(2, 4, 4, 8, 8);
        for (size_t i = 0; i < n; i += w) {
            int c = *irange(0, 9);
            for (size_t k = i; k < std::min(n, i + w); ++k) {
                if (c < 3) b[k] = 0;
                else if (c < 5) b[k] = 0xff;
                else if (c < 7 && i >= w) b[k] = b[k - w];
                else b[k] = *rc::gen::arbitrary<uint8_t>();
            }
        }
        return b;
    });
    // extreme constants with at most one byte disturbed: 00..00, ff..ff, 00..01, 80..00, ff..fe, ...
    auto extreme = rc::gen::exec([n]() {
        Bytes b(n, (uint8_t)(*chance(50) ? 0xff : 0x00));
        if (*chance(60)) { size_t pos = *rc::gen::element<size_t>(0, n - 1, (size_t)*irange(0, (int)n - 1)); b[pos] = *rc::gen::element<uint8_t>(0x00, 0x01, 0x7f, 0x80, 0xfe, 0xff); }
        return b;
    });
    return rc::gen::weightedOneOf<Bytes>({{5, uniform}, {2, seeded}, {1, sparse}, {1, constant}, {1, counting}, {1, highbits}, {2, wordy}, {1, extreme}});
}

// bulk data: cheap, from a shrinkable seed (keeps big inputs from dominating shrink time)
static inline rc::Gen<Bytes> gdata(size_t n) {
    if (n == 0) return rc::gen::just(Bytes());
    if (n <= 24) return gbytes(n);
    return rc::gen::map(rc::gen::arbitrary<uint32_t>(), [n](uint32_t seed) {
        Bytes b(n); uint64_t x = seed * 0x9e3779b97f4a7c15ULL + 77;
        if (seed == 0) return b;   // shrinks to all-zero data
        for (size_t i = 0; i < n; ++i) { x ^= x << 13; x ^= x >> 7; x ^= x << 17; b[i] = (uint8_t)(x >> 24); }
        return b;
    });
}

// arrays of blocks (parallel-ECB data, Mantis per-block tweak arrays) the way callers build them: unrelated blocks, the
// same block throughout, a big-endian ramp (counter mode on top of ECB, sector numbers), one base block with a few
// entries replaced, two values in runs (region tags A A A B B A A).  A batch kernel that derives a whole batch from
// some of its lanes (first == last, so all equal) is right on unrelated blocks and on constant arrays, wrong on these.
static inline rc::Gen<Bytes> gblocks(size_t n, size_t bs) {
    if (n < 2 * bs || n % bs) return gdata(n);
    auto structured = rc::gen::exec([n, bs]() {
        size_t nb = n / bs;
        Bytes base = *gbytes(bs), other = *gbytes(bs);
        Bytes b(n);
        int shape = *irange(0, 3);
        for (size_t i = 0; i < nb; ++i) {
            Bytes blk = base;
            if (shape == 1) {            // ramp: base + i, big-endian; sometimes in a middle byte only
                size_t k = bs; unsigned long long add = i;
                while (k-- > 0 && add) { add += blk[k]; blk[k] = (uint8_t)add; add >>= 8; }
            }
            memcpy(&b[i * bs], blk.data(), bs);
        }
        if (shape == 2) {                // a few entries replaced
            int r = *irange(1, 3);
            for (int j = 0; j < r; ++j) {
                size_t i = (size_t)*irange(0, (int)nb - 1);
                Bytes blk = *chance(50) ? other : base;
                if (blk == base) { size_t pos = (size_t)*irange(0, (int)bs - 1); blk[pos] ^= (uint8_t)(1u << *irange(0, 7)); }
                memcpy(&b[i * bs], blk.data(), bs);
            }
        } else if (shape == 3) {         // two values in runs
            bool cur = false;
            for (size_t i = 0; i < nb; ++i) { if (*chance(30)) cur = !cur; memcpy(&b[i * bs], (cur ? other : base).data(), bs); }
        }
        return b;
    });
    return rc::gen::weightedOneOf<Bytes>({{5, gdata(n)}, {4, structured}});
}

// counters: uniform, ff-suffixes (carry chains), all-ff (wrap), ff..ff - k
static inline rc::Gen<Bytes> gcounter(size_t n) {
    if (n == 0) return rc::gen::just(Bytes());
    auto ffsuffix = rc::gen::exec([n]() {
        Bytes b = *rc::gen::container<Bytes>(n, rc::gen::arbitrary<uint8_t>());
        int k = *irange(1, (int)n);
        for (int i = 0; i < k; ++i) b[n - 1 - i] = 0xff;
        int back = *irange(0, 9);   // a few steps before the carry so that it happens inside the stream
        for (size_t i = n; back > 0 && i-- > 0;) { if (b[i] >= back) { b[i] -= (uint8_t)back; back = 0; } else { b[i] = (uint8_t)(b[i] + 256 - back); back = 1; } }
        return b;
    });
    auto nearwrap = rc::gen::map(irange(0, 40), [n](int k) {
        Bytes b(n, 0xff);
        for (size_t i = n; k > 0 && i-- > 0;) { if (b[i] >= k) { b[i] -= (uint8_t)k; k = 0; } else { b[i] = (uint8_t)(b[i] + 256 - k); k = 1; } }
        return b;
    });
    return rc::gen::weightedOneOf<Bytes>({{3, gbytes(n)}, {4, ffsuffix}, {2, nearwrap}});
}

// ------------------------------------------------------------------ shared main()
struct Harness {
    virtual ~Harness() {}
    virtual rc::Gen<Program> gen() = 0;
    // returns "" when the case passes, otherwise a description of the violation
    virtual std::string run(const Program &p, Stats &st) = 0;
    virtual std::string selftest() { return ref::selftest(); }
    virtual void configure(const std::map<std::string, std::string> &) {}
    // a property may be served by harnesses with different case languages (API programs / big-request cases):
    // a replay file written by one is skipped by the others
    virtual bool understands(const Program &p) { return !p.empty() && p[0].name != "big"; }
};

static std::string g_current_case;   // serialisation of the case being executed (for crash capture)
static std::string g_fail_path;
static char g_crash_path[512];

extern "C" void __sanitizer_set_death_callback(void (*)(void)) __attribute__((weak));

// The case about to be executed is written to <fail>.crash *before* it runs (two cheap system
// calls), so that it survives even when the library then corrupts the heap before crashing.
static int g_crash_fd = -1;
static void crash_note_case() {
    if (g_crash_fd < 0) return;
    ssize_t w = pwrite(g_crash_fd, g_current_case.data(), g_current_case.size(), 0);
    (void)w;
    if (ftruncate(g_crash_fd, (off_t)g_current_case.size()) != 0) {}
}
static void crash_dump() {}
static void crash_handler(int sig, siginfo_t *si, void *) {
    crash_dump();
    const char m[] = "\nSKV-CRASH: signal while executing a case (case saved)\n";
    ssize_t w = write(2, m, sizeof m - 1);
    uintptr_t a = si ? (uintptr_t)si->si_addr : 0;
    if (sig == SIGSEGV && active_ro().hi && a >= active_ro().lo && a < active_ro().hi) {
        const char m2[] = "SKV-CRASH: the library wrote to an object that this function takes as pointer-to-const (the object sat in a read-only page)\n";
        w = write(2, m2, sizeof m2 - 1);
    } else if (sig == SIGILL) { const char m3[] = "SKV-CRASH: illegal instruction\n"; w = write(2, m3, sizeof m3 - 1); }
    (void)w;
    _exit(3);
}
static void sanitizer_death() { crash_dump(); }

static inline int skv_main(int argc, char **argv, Harness &h) {
    std::string mode = argc > 1 ? argv[1] : "";
    std::map<std::string, std::string> kv;
    std::vector<std::string> pos;
    for (int i = 2; i < argc; ++i) {
        std::string a = argv[i];
        if (a.rfind("--", 0) == 0 && i + 1 < argc) { kv[a.substr(2)] = argv[++i]; }
        else pos.push_back(a);
    }
    h.configure(kv);
    std::string st_err = h.selftest();
    if (!st_err.empty()) { fprintf(stderr, "SKV-INFRA: oracle self-test failed: %s\n", st_err.c_str()); return 2; }
    if (mode == "selftest") { printf("selftest ok\n"); return 0; }

    Stats st;
    if (mode == "replay") {
        if (pos.empty()) { fprintf(stderr, "usage: replay FILE\n"); return 2; }
        std::string text = read_file(pos[0]);
        // a replay file holds one program, or several separated by a line "----": they are then executed in order
        // in this one process (a witness for state that the library keeps between unrelated objects)
        std::vector<std::string> parts; { std::string cur; std::istringstream is(text); std::string line;
            while (std::getline(is, line)) { if (line == "----") { parts.push_back(cur); cur.clear(); } else { cur += line; cur += '\n'; } }
            parts.push_back(cur); }
        size_t ran = 0;
        for (auto &part : parts) {
            Program p = parse(part);
            if (p.empty()) continue;
            if (!h.understands(p)) { printf("SKV-PASS (case written by another harness of this property: skipped)\n"); return 0; }
            ++ran;
            g_current_case = ser(p);
            std::string r = h.run(p, st);
            if (!r.empty()) { printf("SKV-FAIL: %s%s\n", parts.size() > 1 ? ("(program " + std::to_string(ran) + " of a sequence) ").c_str() : "", r.c_str()); return 1; }
        }
        if (!ran) { fprintf(stderr, "SKV-INFRA: empty or unreadable replay file %s\n", pos[0].c_str()); return 2; }
        printf("SKV-PASS digest=%016llx\n", (unsigned long long)st.last_digest);
        return 0;
    }
    if (mode != "gen") { fprintf(stderr, "usage: %s gen|replay|selftest ...\n", argv[0]); return 2; }

    std::string out = kv.count("out") ? kv["out"] : "";
    g_fail_path = kv.count("fail") ? kv["fail"] : "";
    if (!g_fail_path.empty()) {
        snprintf(g_crash_path, sizeof g_crash_path, "%s.crash", g_fail_path.c_str());
        g_crash_fd = open(g_crash_path, O_WRONLY | O_CREAT | O_TRUNC, 0644);
        struct sigaction sa; memset(&sa, 0, sizeof sa); sa.sa_sigaction = crash_handler; sa.sa_flags = SA_SIGINFO;
        sigaction(SIGSEGV, &sa, nullptr); sigaction(SIGBUS, &sa, nullptr); sigaction(SIGILL, &sa, nullptr);
        sigaction(SIGFPE, &sa, nullptr); sigaction(SIGABRT, &sa, nullptr);
        if (__sanitizer_set_death_callback) __sanitizer_set_death_callback(sanitizer_death);
    }
    if (kv.count("digest")) st.digest_file = fopen(kv["digest"].c_str(), "wb");
    long dump_index = kv.count("dump-index") ? atol(kv["dump-index"].c_str()) : -1;
    std::string corpus_dir = kv.count("corpus") ? kv["corpus"] : "";
    long corpus_n = kv.count("corpus-n") ? atol(kv["corpus-n"].c_str()) : 200;
    // --isolate 1: every case runs in a forked child, so nothing a case leaves behind in the process (a static
    // cache inside the library, say) can influence the verdict on a later case
    bool isolate = kv.count("isolate") && kv["isolate"] == "1";
    std::string last_fail, last_msg;
    std::vector<std::string> recent;
    auto gen = h.gen();
    bool ok = rc::check([&]() {
        Program p = *gen;
        // where the caller's objects sit: the public types need 8-byte alignment and nothing more, and a stand-alone
        // local happens to get 16; a member after a pointer, or a packed record, does not
        for (Op &op : p)
            if (op.name.rfind("new.", 0) == 0 && !op.has("ao"))
                op.set("ao", *rc::gen::weightedOneOf<int>({{5, rc::gen::just(0)}, {3, rc::gen::element(8, 24, 40, 56)}, {2, rc::gen::element(16, 32, 48)}}));
        // ... and 12 % of the objects that the API also takes as pointer-to-const live in pages that are read-only during those calls
        for (Op &op : p)
            if (op.name.rfind("new.", 0) == 0 && !op.has("ro") && op.name.find(".c") == std::string::npos && *chance(12)) op.set("ro", 1);
        g_current_case = ser(p);
        crash_note_case();
        if (!corpus_dir.empty() && (long)st.evaluations < corpus_n && !st.shrinking) {
            char nm[64]; snprintf(nm, sizeof nm, "/seed-%016llx", (unsigned long long)fnv64(g_current_case));
            write_file(corpus_dir + nm, g_current_case);
        }
        if (dump_index >= 0 && (long)st.evaluations == dump_index && kv.count("dump-path")) write_file(kv["dump-path"], g_current_case);
        std::string r;
        if (recent.size() >= 48) recent.erase(recent.begin());
        recent.push_back(g_current_case);
        if (isolate) {
            int fd[2];
            if (pipe(fd) != 0) RC_FAIL(std::string("pipe failed"));
            fflush(stdout); fflush(stderr);
            pid_t pid = fork();
            if (pid == 0) {
                close(fd[0]);
                Stats dummy; dummy.shrinking = true;
                std::string cr = h.run(p, dummy);
                ssize_t w = write(fd[1], cr.data(), cr.size()); (void)w;
                _exit(0);
            }
            close(fd[1]);
            char buf[1024]; ssize_t n;
            while ((n = read(fd[0], buf, sizeof buf)) > 0) r.append(buf, (size_t)n);
            close(fd[0]);
            int status = 0; waitpid(pid, &status, 0);
            if (!WIFEXITED(status) || WEXITSTATUS(status) != 0) r = "the process died while executing this case in isolation (status " + std::to_string(status) + ")";
            ++st.evaluations;
        } else r = h.run(p, st);
        if (!r.empty()) {
            if (!st.shrinking && !g_fail_path.empty()) {
                // the cases that ran before this one in the same process, oldest first, then the failing one
                std::string hist;
                for (size_t k = 0; k < recent.size(); ++k) { hist += recent[k]; if (k + 1 < recent.size()) hist += "----\n"; }
                write_file(g_fail_path + ".history", hist);
            }
            st.shrinking = true;
            last_fail = g_current_case; last_msg = r;
            RC_FAIL(r);
        }
    });
    for (auto &kv : api_call_counts()) st.classes["api/" + kv.first] += kv.second;
    if (!out.empty()) { st.dump(out); st.dump_hashes(out + ".hashes"); }
    if (st.digest_file) { fclose(st.digest_file); st.digest_file = nullptr; }
    if (g_crash_fd >= 0) { close(g_crash_fd); g_crash_fd = -1; unlink(g_crash_path); }
    if (!ok) {
        if (last_fail.empty()) { fprintf(stderr, "SKV-INFRA: rapidcheck reported failure without a failing case (gave up / generator error)\n"); return 2; }
        if (!g_fail_path.empty()) { write_file(g_fail_path, last_fail); write_file(g_fail_path + ".msg", last_msg + "\n"); }
        printf("SKV-FAIL: %s\n", last_msg.c_str());
        return 1;
    }
    return 0;
}

}  // namespace skv
