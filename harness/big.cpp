// Large requests and far-apart buffers: regions of the input space that the arena-based executor cannot reach.
//   --family ctr : one CTR call of >= 65536 blocks (and, with --huge 1, of more than 4 GiB), then a continuation
//                  call; output == input xor E(c + i) checked on sampled blocks (C05)
//   --family par : one parallel-ECB call of that size; sampled blocks == single-block functions (C07)
//   --family far : CTR / parallel calls whose output buffer lies exactly k * 2^32 bytes after the input buffer
//                  (only the touched pages are mapped) - placement independence (C09)
// The oracle is the library's own single-block functions (tied to the specification by C01/C02/C04).
#include <sys/mman.h>
#include "gens.hpp"
using namespace skv;

struct Big : Harness {
    Api api = static_api();
    std::string family = "ctr";
    bool huge = false;
    bool understands(const Program &p) override { return !p.empty() && p[0].name == "big"; }
    void configure(const std::map<std::string, std::string> &kv) override {
        if (kv.count("family")) family = kv.at("family");
        if (kv.count("huge")) huge = kv.at("huge") == "1";
    }

    rc::Gen<Program> gen() override {
        std::string fam = family; bool hg = huge;
        return rc::gen::exec([fam, hg]() {
            Program p;
            bool ctr = fam == "ctr" || (fam == "far" && *chance(50));
            int kind = ctr ? *rc::gen::element((int)C128, (int)C64, (int)CM) : *rc::gen::element((int)P128, (int)P64, (int)PM);
            int bs = kind_bs(kind);
            int be = *rc::gen::elementOf(backends_for(kind));
            Op o = mkop("big");
            o.set("kind", kind).set("be", be).set("key", *gbytes(kind == CM || kind == PM ? 16 : (size_t)bs * (size_t)*irange(1, 3))).set("rounds", *irange(5, 8)).set("mode", *irange(0, 1));
            o.set("seed", (long long)*rc::gen::arbitrary<uint32_t>());
            if (ctr) o.set("ctr", *gcounter((size_t)bs));
            if (fam == "far") {
                o.set("far", *irange(1, 2)).set("n", (long long)bs * *irange(1, 200) + (ctr ? *irange(0, bs - 1) : 0)).set("off", *irange(0, 63));
            } else {
                long long blocks = *rc::gen::weightedOneOf<int>({{3, rc::gen::element(65536, 65537, 65535, 131072)}, {3, irange(65281, 65600)}, {2, irange(65536, 70000)}, {1, irange(1 << 17, (1 << 17) + 40)}});
                long long n = blocks * bs + (ctr ? *irange(0, bs - 1) : 0);
                if (hg && be != 0 && *chance(40)) n = (1LL << 32) + (long long)bs * *irange(1, 40) + (ctr ? *irange(0, bs - 1) : 0);   // more than 4 GiB in one call
                o.set("n", n).set("cont", ctr ? *irange(1, 300) : 0);
            }
            p.push_back(o);
            return p;
        });
    }

    static void add_be(uint8_t *c, int bs, uint64_t v) {
        for (int i = bs - 1; i >= 0 && v; --i) { uint64_t s = c[i] + (v & 0xff); c[i] = (uint8_t)s; v = (v >> 8) + (s >> 8); }
    }
    static uint8_t pat(uint64_t i, uint32_t seed) { uint64_t x = (i * 0x9e3779b97f4a7c15ULL) ^ seed; x ^= x >> 29; return (uint8_t)(x * 0xbf58476d1ce4e5b9ULL >> 56); }

    std::string run(const Program &p, Stats &st) override {
        const Op &o = p[0];
        int kind = (int)o.geti("kind"), be = (int)o.geti("be"), bs = kind_bs(kind);
        bool ctr = kind_is_ctr(kind);
        const Bytes &key = *o.getb("key");
        uint32_t seed = (uint32_t)o.geti("seed");
        unsigned rounds = (unsigned)o.geti("rounds"); int mode = (int)o.geti("mode");
        size_t n = (size_t)o.geti("n"), cont = (size_t)o.geti("cont");
        int far = (int)o.geti("far");
        // reference schedule for the single-block functions
        Skinny128Key_t k128; Skinny64Key_t k64; MantisKey_t mk;
        if (kind == C128 || kind == P128) api.skinny128_set_key(&k128, key.data(), (unsigned)key.size());
        else if (kind == C64 || kind == P64) api.skinny64_set_key(&k64, key.data(), (unsigned)key.size());
        else api.mantis_set_key(&mk, key.data(), 16, rounds, ctr ? MANTIS_ENCRYPT : mode);
        auto E = [&](uint8_t *out, const uint8_t *in, const uint8_t *tw, bool dec) {
            if (kind == C128 || kind == P128) (dec ? api.skinny128_ecb_decrypt : api.skinny128_ecb_encrypt)(out, in, &k128);
            else if (kind == C64 || kind == P64) (dec ? api.skinny64_ecb_decrypt : api.skinny64_ecb_encrypt)(out, in, &k64);
            else if (tw) api.mantis_ecb_crypt_tweaked(out, in, tw, &mk);
            else api.mantis_ecb_crypt(out, in, &mk);
        };
        // memory
        size_t span = far ? ((size_t)far << 32) + n + 8192 : n + cont + 4096;
        uint8_t *base = (uint8_t *)mmap(nullptr, span, far ? PROT_NONE : PROT_READ | PROT_WRITE, MAP_PRIVATE | MAP_ANONYMOUS | MAP_NORESERVE, -1, 0);
        if (base == MAP_FAILED) return "";   // not enough address space / memory: inconclusive, never a violation
        uint8_t *in = base + (far ? (size_t)o.geti("off") : 0), *out = far ? in + ((size_t)far << 32) : in;
        uint8_t *twbuf = nullptr;
        if (far) {
            size_t pg = 4096;
            mprotect(base, ((size_t)o.geti("off") + n + pg) / pg * pg, PROT_READ | PROT_WRITE);
            uint8_t *ob = (uint8_t *)((uintptr_t)out & ~(uintptr_t)(pg - 1));
            mprotect(ob, ((size_t)(out - ob) + n + pg) / pg * pg, PROT_READ | PROT_WRITE);
        }
        if (kind == PM) {
            twbuf = (uint8_t *)mmap(nullptr, n + 4096, PROT_READ | PROT_WRITE, MAP_PRIVATE | MAP_ANONYMOUS | MAP_NORESERVE, -1, 0);
            if (twbuf == MAP_FAILED) { munmap(base, span); return ""; }
            for (size_t i = 0; i < n; ++i) twbuf[i] = pat(i, seed ^ 0x5555);
        }
        for (size_t i = 0; i < n + (far ? 0 : cont); ++i) in[i] = pat(i, seed);
        // the call(s)
        std::string res;
        *api.vec_limit = be;
        int r1 = 0, r2 = 1;
        union { Skinny128CTR_t c128; Skinny64CTR_t c64; MantisCTR_t cm; Skinny128ParallelECB_t p128; Skinny64ParallelECB_t p64; MantisParallelECB_t pm; } h;
        memset(&h, 0, sizeof h);
        Bytes c0 = ctr ? *o.getb("ctr") : Bytes();
        bool dec = !ctr && mode == 0 && kind != PM;
        switch (kind) {
        case C128: api.skinny128_ctr_init(&h.c128); api.skinny128_ctr_set_key(&h.c128, key.data(), (unsigned)key.size()); api.skinny128_ctr_set_counter(&h.c128, c0.data(), 16);
            r1 = api.skinny128_ctr_encrypt(out, in, n, &h.c128); if (cont) r2 = api.skinny128_ctr_encrypt(out + n, in + n, cont, &h.c128); api.skinny128_ctr_cleanup(&h.c128); break;
        case C64: api.skinny64_ctr_init(&h.c64); api.skinny64_ctr_set_key(&h.c64, key.data(), (unsigned)key.size()); api.skinny64_ctr_set_counter(&h.c64, c0.data(), 8);
            r1 = api.skinny64_ctr_encrypt(out, in, n, &h.c64); if (cont) r2 = api.skinny64_ctr_encrypt(out + n, in + n, cont, &h.c64); api.skinny64_ctr_cleanup(&h.c64); break;
        case CM: api.mantis_ctr_init(&h.cm); api.mantis_ctr_set_key(&h.cm, key.data(), 16, rounds); api.mantis_ctr_set_counter(&h.cm, c0.data(), 8);
            r1 = api.mantis_ctr_encrypt(out, in, n, &h.cm); if (cont) r2 = api.mantis_ctr_encrypt(out + n, in + n, cont, &h.cm); api.mantis_ctr_cleanup(&h.cm); break;
        case P128: api.skinny128_parallel_ecb_init(&h.p128); api.skinny128_parallel_ecb_set_key(&h.p128, key.data(), (unsigned)key.size());
            r1 = dec ? api.skinny128_parallel_ecb_decrypt(out, in, n, &h.p128) : api.skinny128_parallel_ecb_encrypt(out, in, n, &h.p128); api.skinny128_parallel_ecb_cleanup(&h.p128); break;
        case P64: api.skinny64_parallel_ecb_init(&h.p64); api.skinny64_parallel_ecb_set_key(&h.p64, key.data(), (unsigned)key.size());
            r1 = dec ? api.skinny64_parallel_ecb_decrypt(out, in, n, &h.p64) : api.skinny64_parallel_ecb_encrypt(out, in, n, &h.p64); api.skinny64_parallel_ecb_cleanup(&h.p64); break;
        case PM: api.mantis_parallel_ecb_init(&h.pm); api.mantis_parallel_ecb_set_key(&h.pm, key.data(), 16, rounds, mode);
            r1 = api.mantis_parallel_ecb_crypt(out, in, twbuf, n, &h.pm); api.mantis_parallel_ecb_cleanup(&h.pm); break;
        }
        *api.vec_limit = 256;
        if (r1 != 1 || r2 != 1) res = "call returned " + std::to_string(r1 != 1 ? r1 : r2) + " for a valid request of " + std::to_string(n) + " bytes";
        // sampled verification: first / last blocks, blocks around powers of two (in blocks and in bytes), pseudo-random blocks
        size_t total = n + (far ? 0 : cont), nblk = (total + bs - 1) / bs;
        std::vector<size_t> sample;
        for (size_t b = 0; b < 48 && b < nblk; ++b) { sample.push_back(b); sample.push_back(nblk - 1 - b); }
        for (int e = 8; e < 40; ++e) for (long long d = -3; d <= 3; ++d) {
            long long b1 = (1LL << e) + d, b2 = ((1LL << e) / bs) + d;
            if (b1 >= 0 && (size_t)b1 < nblk) sample.push_back((size_t)b1);
            if (b2 >= 0 && (size_t)b2 < nblk) sample.push_back((size_t)b2);
        }
        { size_t nb = n / bs; for (long long d = -4; d <= 4; ++d) if ((long long)nb + d >= 0 && (size_t)((long long)nb + d) < nblk) sample.push_back((size_t)((long long)nb + d)); }
        uint64_t x = seed | 1;
        for (int k = 0; k < 1500 && nblk; ++k) { x ^= x << 13; x ^= x >> 7; x ^= x << 17; sample.push_back((size_t)(x % nblk)); }
        for (size_t b : sample) {
            if (!res.empty()) break;
            size_t off = b * bs, len = std::min((size_t)bs, total - off);
            uint8_t want[16], src[16], blk[16];
            for (size_t i = 0; i < len; ++i) src[i] = far ? in[off + i] : pat(off + i, seed);   // in place: the input is gone, regenerate it
            if (ctr) {
                uint8_t c[16]; memcpy(c, c0.data(), (size_t)bs); add_be(c, bs, b);
                E(blk, c, nullptr, false);
                for (size_t i = 0; i < len; ++i) want[i] = src[i] ^ blk[i];
            } else {
                uint8_t tw[8]; if (kind == PM) for (int i = 0; i < 8; ++i) tw[i] = pat(off + (size_t)i, seed ^ 0x5555);
                E(want, src, kind == PM ? tw : nullptr, dec);
            }
            if (memcmp(out + off, want, len) != 0)
                res = std::string(kname(kind)) + " back end " + std::to_string(be) + ": request of " + std::to_string(n) + " bytes" + (cont ? " + continuation of " + std::to_string(cont) : "") +
                      (far ? " with the output " + std::to_string(far) + " * 2^32 bytes after the input" : "") + ": block " + std::to_string(b) + " (byte offset " + std::to_string(off) +
                      ") is " + hex(out + off, len) + ", expected " + hex(want, len);
        }
        if (twbuf) munmap(twbuf, n + 4096);
        munmap(base, span);
        if (!res.empty()) return res;
        if (!st.shrinking) {
            st.count(std::string(kname(kind)) + "/be" + std::to_string(be));
            if (far) st.count("output-k*2^32-after-input");
            else if (n >= (1ULL << 32)) st.count("request>=4GiB");
            else st.count("request>=65281-blocks");
            st.extra["bytes_processed"] += (double)total;
            st.extra["blocks_verified"] += (double)sample.size();
            st.case_done(ser(p), true);
        }
        return "";
    }
};
int main(int argc, char **argv) { Big h; return skv_main(argc, argv, h); }
