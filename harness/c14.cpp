// C14 — error contract: invalid calls return 0 and change nothing; valid calls return 1.
// A valid history with invalid calls injected (inv=1) runs on object A; its twin B gets the
// history without the injections.  Oracles: every injected call returns 0 and leaves its
// output buffer untouched; all other records of A equal B's (differential, "as if the call had
// not been made"); caller-owned schedules keep their image across a rejected call; and the
// whole transcript agrees with the API model (valid calls return 1).
#include "lifecycle.hpp"
using namespace skv;

struct C14 : Harness {
    Api api = static_api();
    bool heap = false;
    void configure(const std::map<std::string, std::string> &kv) override { if (kv.count("heap")) heap = kv.at("heap") == "1"; }

    // histories over caller-owned schedules with injected invalid calls
    static void sched_history(Program &p) {
        int kind = *rc::gen::element((int)K128, (int)K64, (int)T128, (int)T64, (int)MK);
        int bs = kind_bs(kind);
        bool tk = kind == T128 || kind == T64;
        p.push_back(mkop(std::string("new.") + kname(kind)).set("fill", *rc::gen::element(0, 0xA5, 0xFF)));
        int huge = *ghuge(*rc::gen::element(bs, 2 * bs, 16, 6, 8));
        bool keyed = false;
        int n = *irange(3, 14);
        for (int i = 0; i < n; ++i) {
            int w = keyed ? *irange(0, 9) : 0;
            if (*chance(30)) {           // inject an invalid call
                int v = *irange(0, 4);
                if (kind == MK) {
                    if (v == 0) p.push_back(mkop("mk.set_key").set("s", 0).set("inv", 1).set("key", *gbytes(16)).set("len", 16).set("rounds", *rc::gen::element(0, 4, 9, 100, huge)).set("mode", *irange(0, 1)));
                    else if (v == 1) { int len = *rc::gen::element(0, 8, 15, 17, 24, huge); p.push_back(mkop("mk.set_key").set("s", 0).set("inv", 1).set("key", *gbytes(std::min<size_t>((unsigned)len, 40))).set("len", len).set("rounds", *irange(5, 8)).set("mode", 1)); }
                    else if (v == 2) p.push_back(mkop("mk.set_key").set("s", 0).set("inv", 1).setnull("key").set("len", 16).set("rounds", 6).set("mode", 1));
                    else if (v == 3) { int len = *rc::gen::element(0, 1, 7, 9, 16, huge); p.push_back(mkop("mk.set_tweak").set("s", 0).set("inv", 1).set("tweak", *gbytes(std::min<size_t>((unsigned)len, 16))).set("len", len)); }
                    else p.push_back(mkop(*chance(50) ? "mk.set_key" : "mk.set_tweak").set("s", -1).set("inv", 1).set("key", *gbytes(16)).set("tweak", *gbytes(8)).set("len", *rc::gen::element(8, 16)).set("rounds", 7).set("mode", 1));
                } else {
                    const char *kf = tk ? "set_tweaked_key" : "set_key";
                    int maxb = tk ? 2 : 3;
                    if (v == 0) { int len = *rc::gen::element(0, 1, bs - 1, maxb * bs + 1, maxb * bs + bs, huge); p.push_back(mkop(opn(kind, kf)).set("s", 0).set("inv", 1).set("key", *gbytes(std::min<size_t>((unsigned)len, 3 * bs + 16))).set("len", len)); }
                    else if (v == 1) p.push_back(mkop(opn(kind, kf)).set("s", 0).set("inv", 1).setnull("key").set("len", bs));
                    else if (v == 2) p.push_back(mkop(opn(kind, kf)).set("s", -1).set("inv", 1).set("key", *gbytes(bs)).set("len", bs));
                    else if (tk && v == 3) { int len = *rc::gen::element(0, bs + 1, 2 * bs, huge); Op t = mkop(opn(kind, "set_tweak")); t.set("s", 0).set("inv", 1); if (*chance(25)) t.setnull("tweak"); else t.set("tweak", *gbytes(std::min<size_t>((unsigned)len, 2 * bs))); t.set("len", len); p.push_back(t); }
                    else if (tk) p.push_back(mkop(opn(kind, "set_tweak")).set("s", -1).set("inv", 1).set("tweak", *gbytes(bs)).set("len", bs));
                    else { int len = *rc::gen::element(0, bs - 1, maxb * bs + 1, huge); p.push_back(mkop(opn(kind, kf)).set("s", 0).set("inv", 1).set("key", *gbytes(std::min<size_t>((unsigned)len, 3 * bs + 16))).set("len", len)); }
                }
                continue;
            }
            if (w == 0) {
                if (kind == MK) p.push_back(mkop("mk.set_key").set("s", 0).set("key", *gbytes(16)).set("len", 16).set("rounds", *irange(5, 8)).set("mode", *irange(0, 1)));
                else { int len = *gkeylen(bs, tk ? 2 : 3, 15); p.push_back(mkop(opn(kind, tk ? "set_tweaked_key" : "set_key")).set("s", 0).set("key", *gbytes(len)).set("len", len)); }
                keyed = true;
            } else if (w <= 2 && (tk || kind == MK)) {
                int tl = kind == MK ? 8 : *irange(1, bs);
                Op t = mkop(opn(kind, "set_tweak")); t.set("s", 0);
                if (*chance(20)) t.setnull("tweak"); else t.set("tweak", *gbytes(tl));
                t.set("len", tl); p.push_back(t);
            } else if (kind == MK) {
                if (*chance(20)) p.push_back(mkop("mk.swap").set("s", 0));
                else p.push_back(mkop("mk.crypt").set("s", 0).set("in", *gbytes(8)));
            } else p.push_back(mkop(opn(kind, *chance(50) ? "enc" : "dec")).set("s", 0).set("in", *gbytes(bs)));
        }
        if (keyed) p.push_back(mkop(kind == MK ? "mk.crypt" : opn(kind, "enc")).set("s", 0).set("in", *gbytes(bs)));
    }

    rc::Gen<Program> gen() override {
        return rc::gen::exec([]() {
            if (*chance(25)) { Program p; sched_history(p); return p; }
            HistGen g;
            g.o.invalid = true; g.o.midstream = true; g.o.lifecycle = true; g.o.allocfail = true;
            int kind = *rc::gen::element((int)C128, (int)C64, (int)CM, (int)P128, (int)P64, (int)PM);
            auto bes = backends_for(kind);
            g.add_slot(kind, *rc::gen::elementOf(bes), *rc::gen::element(0, 0, 0xFF, 0xA5, 0x01));
            int n = *irange(3, 36);
            for (int i = 0; i < n; ++i) g.step(0);
            // end with data so that damage done by the last invalid call is observable
            if (g.ss[0].live && g.ss[0].keyed) { g.data(0); g.data(0); }
            return g.p;
        });
    }

    std::string run(const Program &p, Stats &st) override {
        MonHooks mha; mha.reset((int)(fnv64(ser(p)) % 9)); mha.check_live = false;
        ExecOptions eo; eo.heap_buffers = heap; eo.hooks = &mha;
        Exec exa(api, eo);
        Transcript ta = exa.run(p);
        // (1) injected calls: return 0, output untouched, no monitor facts
        std::vector<int> last_on_slot;   // index of the previous op per slot
        std::map<long long, size_t> prev;
        for (size_t i = 0; i < p.size(); ++i) {
            const Op &op = p[i];
            if (!ta[i].err.empty()) return "op #" + std::to_string(i) + " [" + ser(op).substr(0, 200) + "]: monitor: " + ta[i].err;
            long long s = op.geti("s", -1);
            if (op.geti("inv")) {
                if (ta[i].ret != 0 && ta[i].ret != RET_VOID) return "op #" + std::to_string(i) + " [" + ser(op).substr(0, 200) + "]: invalid call returned " + std::to_string(ta[i].ret);
                if (ta[i].has_out) {
                    const Bytes *in = op.getb("in");
                    bool ip = op.geti("ip") != 0 && in;
                    for (size_t k = 0; k < ta[i].out.size(); ++k) {
                        uint8_t want = ip ? (*in)[k] : (uint8_t)Exec::OUT_FILL;
                        if (ta[i].out[k] != want) return "op #" + std::to_string(i) + " [" + ser(op).substr(0, 200) + "]: invalid call wrote to its output buffer";
                    }
                }
                if (s >= 0 && prev.count(s) && !ta[i].img.empty() && ta[prev[s]].img != ta[i].img)
                    return "op #" + std::to_string(i) + " [" + ser(op).substr(0, 200) + "]: rejected call changed the caller-owned schedule";
            }
            if (s >= 0 && op.name.rfind("new.", 0) != 0) prev[s] = i;
        }
        // (2) twin without the injections
        Program q; std::vector<size_t> map;
        for (size_t i = 0; i < p.size(); ++i) if (!p[i].geti("inv")) { q.push_back(p[i]); map.push_back(i); }
        MonHooks mhb; mhb.check_live = false; mhb.seen_double = skv_mon_double(); mhb.seen_foreign = skv_mon_foreign(); mhb.seen_nonzero = skv_mon_nonzero(); mhb.seen_failed = skv_mon_failed();
        ExecOptions eob = eo; eob.hooks = &mhb;
        Exec exb(api, eob);
        Transcript tb = exb.run(q);
        for (size_t j = 0; j < q.size(); ++j) {
            const Rec &a = ta[map[j]], &b = tb[j];
            if (a.ret != b.ret || a.has_out != b.has_out || a.out != b.out || a.img != b.img || a.pub != b.pub || a.err != b.err)
                return "op #" + std::to_string(map[j]) + " [" + ser(q[j]).substr(0, 200) + "]: differs from the twin that never saw the invalid calls: A{" +
                       rec_str(a).substr(0, 300) + "} B{" + rec_str(b).substr(0, 300) + "}";
        }
        // (3) API model: valid calls return 1, invalid 0, outputs as specified
        Model m;
        std::string d = cmp_model(p, ta, m.run(p), false);
        if (!d.empty()) return d;
        if (!st.shrinking) {
            bool nt = false; bool pending = false;
            // coverage matrix of the statement: function x class of invalid argument x object state
            std::string kn = p[0].name.substr(4);
            int kind = kind_of(kn); int bs = kind_bs(kind); bool ctr = kind_is_ctr(kind);
            bool sched = kind == K128 || kind == K64 || kind == T128 || kind == T64 || kind == MK;
            bool mant = kind == MK || kind == CM || kind == PM;
            std::string state = sched ? "unkeyed" : (p[0].geti("fill") == 0 ? "zeroed" : "garbage");
            long long pos = 0;
            for (size_t i = 0; i < p.size(); ++i) {
                const Op &op = p[i];
                std::string fn = op.name.substr(op.name.find('.') + 1);
                if (op.name.rfind("new.", 0) == 0) continue;
                if (op.geti("inv")) {
                    pending = true;
                    std::string cls = "args-ok";
                    long long len = op.geti("len", 0);
                    if (op.geti("s", 0) < 0) cls = "null-object";
                    else if (op.isnull("key")) cls = "null-key";
                    else if (fn == "set_key" || fn == "set_tweaked_key") {
                        bool tkf = fn == "set_tweaked_key" || kind == T128 || kind == T64;
                        unsigned ul = (unsigned)len;
                        bool lenok = mant ? ul == 16 : (ul >= (unsigned)bs && ul <= (unsigned)(tkf ? 2 : 3) * bs);
                        long long r = op.geti("rounds", 7);
                        if (!lenok) cls = ul > 0xFFFF ? "bad-len-huge" : "bad-len";
                        else if (mant && (r < 5 || r > 8)) cls = (unsigned)r > 0xFFFF ? "bad-rounds-huge" : "bad-rounds";
                    } else if (fn == "set_tweak") {
                        unsigned ul = (unsigned)len;
                        bool lenok = mant ? ul == 8 : (ul >= 1 && ul <= (unsigned)bs);
                        if (!lenok) cls = std::string(ul > 0xFFFF ? "bad-len-huge" : "bad-len") + (op.isnull("tweak") ? "+null" : "");
                    } else if (fn == "set_counter") {
                        unsigned ul = (unsigned)len;
                        if (ul > (unsigned)bs) cls = std::string(ul > 0xFFFF ? "bad-len-huge" : "bad-len") + (op.isnull("ctr") ? "+null" : "");
                    } else if (fn == "encrypt") {
                        if (op.isnull("in") && op.geti("onull")) cls = "null-in+out";
                        else if (op.isnull("in")) cls = "null-in";
                        else if (op.geti("onull")) cls = "null-out";
                    } else if (fn == "enc" || fn == "dec" || fn == "crypt") {
                        const Bytes *in = op.getb("in");
                        if (in && in->size() % bs) cls = "ragged";
                    }
                    st.count("cell/" + kn + "." + fn + "/" + cls + (cls == "null-object" ? "" : "@" + state));
                } else if (ta[i].has_out && ta[i].ret != 0 && pending) { nt = true; }
                // object state after this call (from the library's own answers)
                if (op.geti("s", 0) < 0) continue;
                if (fn == "init") { state = ta[i].ret == 1 ? "fresh" : "failed"; pos = 0; }
                else if (fn == "cleanup") state = "cleaned";
                else if (ta[i].ret == 1 && (fn == "set_key" || fn == "set_tweaked_key")) { state = "keyed"; pos = 0; }
                else if (ta[i].ret == 1 && (fn == "set_tweak" || fn == "set_counter")) { if (state == "midstream") state = "keyed"; pos = 0; }
                else if (ta[i].ret == 1 && fn == "encrypt" && ctr && (state == "keyed" || state == "midstream")) {
                    const Bytes *in = op.getb("in");
                    pos += in ? (long long)in->size() : 0;
                    state = pos % bs ? "midstream" : "keyed";
                }
            }
            st.count(std::string("kind/") + kn);
            st.case_done(ser(p), nt);
        }
        return "";
    }
};
#ifndef SKV_NO_MAIN
int main(int argc, char **argv) { C14 h; return skv_main(argc, argv, h); }
#endif
