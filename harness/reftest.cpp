// Cross-check of the C++ reference models (ref.hpp) against vectors produced by the
// independent Python models (drafts/refmodel.py).  Line format:
//   S <e|d> <0|1 domain> <tweakey hex> <block hex> <expected hex>
//   M <e|d> <rounds> <key hex> <tweak hex> <block hex> <expected hex>
#include <iostream>
#include <sstream>
#include "prog.hpp"
#include "ref.hpp"
int main(int argc, char **argv) {
    if (argc < 2) return 2;
    std::string text = skv::read_file(argv[1]);
    std::istringstream is(text);
    std::string line; size_t n = 0, bad = 0;
    std::string st = ref::selftest();
    if (!st.empty()) { printf("selftest failed: %s\n", st.c_str()); return 1; }
    while (std::getline(is, line)) {
        std::istringstream ls(line);
        std::string t, d; ls >> t >> d;
        if (t == "S") {
            int dom; std::string k, b, e; ls >> dom >> k >> b >> e;
            auto r = d == "e" ? ref::skinny_encrypt(skv::unhex(b), skv::unhex(k), dom != 0) : ref::skinny_decrypt(skv::unhex(b), skv::unhex(k), dom != 0);
            if (skv::hex(r) != e) { ++bad; printf("MISMATCH %s\n", line.c_str()); }
            ++n;
        } else if (t == "M") {
            int r0; std::string k, tw, b, e; ls >> r0 >> k >> tw >> b >> e;
            auto r = ref::mantis_crypt(skv::unhex(b), skv::unhex(k), skv::unhex(tw), r0, d == "d");
            if (skv::hex(r) != e) { ++bad; printf("MISMATCH %s\n", line.c_str()); }
            ++n;
        }
    }
    printf("reftest: %zu vectors, %zu mismatches\n", n, bad);
    return bad || n == 0 ? 1 : 0;
}
