// C09 — buffer contract: exact extents at any alignment, results independent of alignment,
// documented overlap.  --mode vg : inside memcheck, every buffer is an exact window in a
// NOACCESS arena (inputs defined, outputs addressable-undefined): no invalid access, and every
// output byte defined afterwards.  --mode native : metamorphic relations (same bytes at another
// alignment; overlapping / in-place == disjoint) plus guard zones (and ASan with exact heap
// blocks when built that way).
#include "gens.hpp"
#include "model.hpp"
#include "vg.hpp"
using namespace skv;

static volatile uint8_t g_sink09;
struct C09 : Harness {
    Api api = static_api();
    bool vg = false, heap = false;
    void configure(const std::map<std::string, std::string> &kv) override {
        if (kv.count("mode")) vg = kv.at("mode") == "vg";
        if (kv.count("heap")) heap = kv.at("heap") == "1";
    }
    std::string selftest() override {
        std::string s = ref::selftest();
        if (!s.empty()) return s;
        if (vg) {
            if (!VgHooks::under_valgrind()) return "not running under valgrind/memcheck";
            // positive control: one byte past an exact window must be reported, both for reads and writes
            static uint8_t arena[256];
            VALGRIND_MAKE_MEM_NOACCESS(arena, sizeof arena);
            VALGRIND_MAKE_MEM_DEFINED(arena + 64, 5);
            volatile uint8_t *p = arena;
            unsigned long a = VALGRIND_COUNT_ERRORS;
            g_sink09 = p[64 + 5];   // (a load whose value is never used is dropped by valgrind's optimiser)
            unsigned long b = VALGRIND_COUNT_ERRORS;
            p[63] = 1;
            unsigned long c = VALGRIND_COUNT_ERRORS;
            VALGRIND_MAKE_MEM_DEFINED(arena, sizeof arena);
            if (b == a) return "positive control: read one byte past a window not reported";
            if (c == b) return "positive control: write one byte before a window not reported";
        }
        return "";
    }

    rc::Gen<Program> gen() override {
        return rc::gen::exec([]() {
            int w = *irange(0, 9);
            Program p;
            if (w <= 3) {
                int kind = *rc::gen::element((int)K128, (int)K64, (int)T128, (int)T64, (int)MK);
                int bs = kind_bs(kind);
                p.push_back(mkop(std::string("new.") + kname(kind)));
                if (kind == MK) {
                    p.push_back(mkop("mk.set_key").set("s", 0).set("key", *gbytes(16)).set("len", 16).set("rounds", *irange(5, 8)).set("mode", *irange(0, 1)).set("ko", *goffset()));
                    if (*chance(60)) { Op t = mkop("mk.set_tweak"); t.set("s", 0); if (*chance(15)) t.setnull("tweak"); else t.set("tweak", *gbytes(8)); t.set("len", 8).set("to", *goffset()); p.push_back(t); }
                } else if (kind == T128 || kind == T64) {
                    int len = *gkeylen(bs, 2, 30);
                    p.push_back(mkop(opn(kind, "set_tweaked_key")).set("s", 0).set("key", *gbytes(len)).set("len", len).set("ko", *goffset()));
                    int nt = *irange(0, 2);
                    for (int i = 0; i < nt; ++i) { int tl = *irange(1, bs); Op t = mkop(opn(kind, "set_tweak")); t.set("s", 0); if (*chance(15)) t.setnull("tweak"); else t.set("tweak", *gbytes(tl)); t.set("len", tl).set("to", *goffset()); p.push_back(t); }
                } else {
                    int len = *gkeylen(bs, 3, 30);
                    p.push_back(mkop(opn(kind, "set_key")).set("s", 0).set("key", *gbytes(len)).set("len", len).set("ko", *goffset()));
                }
                int nb = *irange(1, 4);
                for (int i = 0; i < nb; ++i) {
                    bool tw = kind == MK && *chance(50);
                    Op e = mkop(kind == MK ? (tw ? "mk.crypt_tw" : "mk.crypt") : opn(kind, *chance(50) ? "enc" : "dec"));
                    e.set("s", 0).set("in", *gbytes(bs));
                    if (tw) e.set("tweak", *gbytes(8)).set("to", *goffset());
                    if (*chance(45)) e.set("ov", *irange(-(bs - 1), bs - 1)).set("io", *goffset()); else e.set("io", *goffset()).set("oo", *goffset());
                    p.push_back(e);
                }
                return p;
            }
            HistGen g;
            g.o.invalid = false; g.o.lifecycle = false; g.o.midstream = true; g.o.inbetween = 30; g.o.loose_tweak = true; g.o.max_rep = 300;
            int kind = *rc::gen::element((int)C128, (int)C128, (int)C64, (int)CM, (int)P128, (int)P64, (int)PM);
            g.add_slot(kind, *rc::gen::elementOf(backends_for(kind)));
            int n = *irange(3, 14);
            for (int i = 0; i < n; ++i) g.step(0);
            g.cleanup(0);
            return g.p;
        });
    }

    static bool strip_overlap(Program &q) {
        bool any = false;
        for (auto &op : q) {
            std::vector<std::pair<std::string, Val>> kv;
            for (auto &e : op.kv) { if (e.first == "ov" || e.first == "ip") { any = true; continue; } kv.push_back(e); }
            op.kv = kv;
        }
        return any;
    }

    std::string run(const Program &p, Stats &st) override {
        VgHooks vh(VgHooks::EXTENTS);
        ExecOptions eo; eo.heap_buffers = heap;
        if (vg) eo.hooks = &vh;
        Exec ex(api, eo);
        Transcript t = ex.run(p);
        for (size_t i = 0; i < t.size(); ++i)
            if (!t[i].err.empty()) return "op #" + std::to_string(i) + " [" + ser(p[i]).substr(0, 200) + "]: " + t[i].err;
        bool odd = false, ovl = false, partial = false, straddled = false;
        for (auto &op : p) {
            for (const char *k : {"io", "oo", "ko", "to", "co"}) if (op.geti(k) & 1) odd = true;
            if (op.has("ov") && op.geti("ov") != 0) ovl = true;
            if (op.geti("ip")) ovl = true;
            if (op.has("in") && op.getb("in") && op.getb("in")->size() % 64 != 0 && op.getb("in")->size() > 16) partial = true;
        }
        if (!vg) {
            // (c) same call sequence at another alignment => same bytes
            ExecOptions e2 = eo; e2.align_delta = 1 + (int)(fnv64(ser(p)) % 63);
            Exec exb(api, e2);
            Transcript tb = exb.run(p);
            CmpOpts co; co.img = true;
            std::string d = cmp_transcripts(p, t, tb, co, "placement-A", "placement-B");
            if (!d.empty()) return "result depends on buffer alignment: " + d;
            // (c') ... and with the buffers around the 4 GiB address line (bit 31 set, one buffer crossing 2^32)
            {
                ExecOptions e3 = eo; e3.straddle_4g = 64 * (1 + (int)(fnv64(ser(p)) % 9));
                Exec exl(api, e3);
                if (exl.straddles_4g()) {
                    Transcript tl = exl.run(p);
                    CmpOpts co2; co2.img = true;
                    std::string d2 = cmp_transcripts(p, t, tl, co2, "ordinary addresses", "buffers at the 4 GiB line");
                    if (!d2.empty()) return "result depends on where the buffers are: " + d2;
                    straddled = true;
                }
            }
            // (d) overlapping single-block buffers / in-place bulk calls => same as disjoint
            Program q = p;
            if (strip_overlap(q)) {
                Exec exc(api, eo);
                Transcript tc = exc.run(q);
                for (size_t i = 0; i < p.size(); ++i)
                    if (t[i].ret != tc[i].ret || t[i].out != tc[i].out)
                        return "op #" + std::to_string(i) + " [" + ser(p[i]).substr(0, 200) + "]: result with overlapping / identical input and output differs from the result with disjoint buffers: " +
                               hex(t[i].out).substr(0, 96) + " vs " + hex(tc[i].out).substr(0, 96);
            }
        }
        if (!st.shrinking) {
            int be = -1; for (auto &r : t) if (r.be >= 0) be = r.be;
            st.count(std::string("kind/") + p[0].name.substr(4) + (be >= 0 ? "/be" + std::to_string(be) : ""));
            if (straddled) st.count("re-run-with-buffers-at-the-4GiB-address-line");
            if (odd) st.count("odd-offset"); if (ovl) st.count("overlap-or-in-place"); if (partial) st.count("partial-vector-batch");
            // the statement's placement matrix: function (x back end) x pointer argument x address mod 16, overlap distance of
            // single-block calls, in-place bulk calls (arena placement only: offsets are relative to a 64-byte boundary there)
            if (!heap) {
                int curbe = -1;
                for (size_t i = 0; i < p.size(); ++i) {
                    const Op &op = p[i];
                    if (op.name.rfind("new.", 0) == 0) continue;
                    if (t[i].be >= 0) curbe = t[i].be;
                    if (op.name.find(".cleanup") != std::string::npos || op.name.find(".init") != std::string::npos || op.name.find(".swap") != std::string::npos) continue;
                    std::string f = op.name + (curbe >= 0 ? "@be" + std::to_string(curbe) : "");
                    bool shared_buf = op.has("ov") || op.geti("ip");
                    if (op.getb("in")) st.count("place/" + f + "/in@" + std::to_string(op.geti("io") & 15));
                    if (op.getb("in") && !shared_buf) st.count("place/" + f + "/out@" + std::to_string(op.geti("oo") & 15));
                    if (op.getb("key")) st.count("place/" + f + "/key@" + std::to_string(op.geti("ko") & 15));
                    if (op.getb("tweak")) st.count("place/" + f + "/tweak@" + std::to_string(op.geti("to") & 15));
                    if (op.getb("ctr")) st.count("place/" + f + "/ctr@" + std::to_string(op.geti("co") & 15));
                    if (op.has("ov")) st.count("overlap/" + op.name + "/" + std::to_string(op.geti("ov")));
                    if (op.geti("ip")) st.count("inplace/" + f);
                }
            }
            st.extra["library_calls"] += (double)p.size() - 1;
            st.case_done(ser(p), odd || ovl || partial);
        }
        return "";
    }
};
#ifndef SKV_NO_MAIN
int main(int argc, char **argv) { C09 h; return skv_main(argc, argv, h); }
#endif
