// Program language shared by all checks: a case is a list of typed operations
// over object slots.  Canonical text form (replay files, evidence samples, hash
// input):   one op per line,  "<name> k=v k=v ..."  with v = decimal integer,
// x<hex> for a byte string (x alone = empty) or NULL for a null pointer.
#pragma once
#include <cstdint>
#include <cstdio>
#include <cstdlib>
#include <cstring>
#include <sstream>
#include <string>
#include <utility>
#include <vector>

#include <map>
namespace skv {

typedef std::vector<uint8_t> Bytes;

static inline std::string hex(const uint8_t *p, size_t n) {
    static const char *d = "0123456789abcdef";
    std::string s; s.reserve(n * 2);
    for (size_t i = 0; i < n; ++i) { s.push_back(d[p[i] >> 4]); s.push_back(d[p[i] & 15]); }
    return s;
}
static inline std::string hex(const Bytes &b) { return hex(b.data(), b.size()); }
static inline int hv(char c) { return c >= '0' && c <= '9' ? c - '0' : c >= 'a' && c <= 'f' ? c - 'a' + 10 : c >= 'A' && c <= 'F' ? c - 'A' + 10 : -1; }
static inline Bytes unhex(const std::string &s) {
    Bytes b; b.reserve(s.size() / 2);
    for (size_t i = 0; i + 1 < s.size(); i += 2) b.push_back((uint8_t)((hv(s[i]) << 4) | hv(s[i + 1])));
    return b;
}
static inline uint64_t fnv64(const std::string &s) {
    uint64_t h = 1469598103934665603ULL;
    for (unsigned char c : s) { h ^= c; h *= 1099511628211ULL; }
    // final avalanche (splitmix)
    h ^= h >> 30; h *= 0xbf58476d1ce4e5b9ULL; h ^= h >> 27; h *= 0x94d049bb133111ebULL; h ^= h >> 31;
    return h;
}

struct Val {
    enum Kind { INT, BYTES, NUL } kind = INT;
    long long i = 0;
    Bytes b;
};

struct Op {
    std::string name;
    std::vector<std::pair<std::string, Val>> kv;

    const Val *find(const char *k) const {
        for (auto &p : kv) if (p.first == k) return &p.second;
        return nullptr;
    }
    Val *findm(const char *k) {
        for (auto &p : kv) if (p.first == k) return &p.second;
        return nullptr;
    }
    bool has(const char *k) const { return find(k) != nullptr; }
    long long geti(const char *k, long long def = 0) const {
        const Val *v = find(k);
        return (v && v->kind == Val::INT) ? v->i : def;
    }
    // nullptr if absent or NULL
    const Bytes *getb(const char *k) const {
        const Val *v = find(k);
        return (v && v->kind == Val::BYTES) ? &v->b : nullptr;
    }
    bool isnull(const char *k) const { const Val *v = find(k); return v && v->kind == Val::NUL; }
    Op &set(const char *k, long long i) {
        Val *v = findm(k);
        if (!v) { kv.emplace_back(k, Val()); v = &kv.back().second; }
        v->kind = Val::INT; v->i = i; v->b.clear();
        return *this;
    }
    Op &set(const char *k, const Bytes &b) {
        Val *v = findm(k);
        if (!v) { kv.emplace_back(k, Val()); v = &kv.back().second; }
        v->kind = Val::BYTES; v->b = b;
        return *this;
    }
    Op &setnull(const char *k) {
        Val *v = findm(k);
        if (!v) { kv.emplace_back(k, Val()); v = &kv.back().second; }
        v->kind = Val::NUL; v->b.clear();
        return *this;
    }
    // bytes-or-null helper: empty optional flag => NULL
    Op &setbn(const char *k, const Bytes &b, bool isnull) { return isnull ? setnull(k) : set(k, b); }
};

static inline Op mkop(const std::string &name) { Op o; o.name = name; return o; }

typedef std::vector<Op> Program;

static inline std::string ser(const Op &o) {
    std::string s = o.name;
    for (auto &p : o.kv) {
        s += ' '; s += p.first; s += '=';
        if (p.second.kind == Val::INT) s += std::to_string(p.second.i);
        else if (p.second.kind == Val::NUL) s += "NULL";
        else { s += 'x'; s += hex(p.second.b); }
    }
    return s;
}
static inline std::string ser(const Program &p) {
    std::string s;
    for (auto &o : p) { s += ser(o); s += '\n'; }
    return s;
}

static inline bool parse_op(const std::string &line, Op &o) {
    std::istringstream is(line);
    std::string tok;
    if (!(is >> tok)) return false;
    if (tok[0] == '#') return false;
    o = Op(); o.name = tok;
    while (is >> tok) {
        size_t e = tok.find('=');
        if (e == std::string::npos) continue;
        std::string k = tok.substr(0, e), v = tok.substr(e + 1);
        if (v == "NULL") o.setnull(k.c_str());
        else if (!v.empty() && v[0] == 'x') o.set(k.c_str(), unhex(v.substr(1)));
        else o.set(k.c_str(), atoll(v.c_str()));
    }
    return true;
}
static inline Program parse(const std::string &text) {
    Program p;
    std::istringstream is(text);
    std::string line;
    while (std::getline(is, line)) { Op o; if (parse_op(line, o)) p.push_back(o); }
    return p;
}
static inline std::string read_file(const std::string &path) {
    FILE *f = fopen(path.c_str(), "rb");
    if (!f) return "";
    std::string s; char buf[4096]; size_t n;
    while ((n = fread(buf, 1, sizeof buf, f)) > 0) s.append(buf, n);
    fclose(f);
    return s;
}
static inline bool write_file(const std::string &path, const std::string &s) {
    FILE *f = fopen(path.c_str(), "wb");
    if (!f) return false;
    fwrite(s.data(), 1, s.size(), f);
    fclose(f);
    return true;
}

// the read-only object region in force during the current library call (ro=1 objects): lets the crash handler say what happened
struct RoRegion { volatile uintptr_t lo = 0, hi = 0; };
inline RoRegion &active_ro() { static thread_local RoRegion r; return r; }   // per thread (executors run concurrently in C18)

// measured API surface (filled by the executor, reported with the statistics)
inline std::map<std::string, uint64_t> &api_call_counts() { static thread_local std::map<std::string, uint64_t> m; return m; }   // per thread: executors run concurrently in C18; the main thread's counts are reported

}  // namespace skv
