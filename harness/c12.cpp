// C12 — build-configuration independence.  Every configuration of the matrix is compiled from the
// current tree into a shared object and loaded privately (dlopen, RTLD_LOCAL); the same generated
// program is executed by all of them (each available back end pinned in turn) and every transcript
// (return values, outputs, active schedule images, public fields) must equal the baseline
// configuration's, which itself is tied to the specification model here and by C01–C07.
#define SKV_NO_STATIC_API
#include "model.hpp"
#include "unigen.hpp"
using namespace skv;

struct C12 : Harness {
    std::vector<Api> apis;
    std::string liberr;
    void configure(const std::map<std::string, std::string> &kv) override {
        if (!kv.count("libs")) { liberr = "no --libs given"; return; }
        std::string s = kv.at("libs");
        size_t pos = 0;
        while (pos < s.size()) {
            size_t e = s.find(',', pos); if (e == std::string::npos) e = s.size();
            std::string item = s.substr(pos, e - pos); pos = e + 1;
            size_t eq = item.find('=');
            if (eq == std::string::npos) continue;
            Api a; std::string err;
            if (!dl_api(item.substr(eq + 1), item.substr(0, eq), a, err)) { liberr = "cannot load " + item + ": " + err; return; }
            apis.push_back(a);
        }
        if (apis.size() < 2) liberr = "need at least two configurations";
    }
    std::string selftest() override { if (!liberr.empty()) return liberr; return ref::selftest(); }
    rc::Gen<Program> gen() override { return rc::gen::exec([]() { return gen_union_program(true, 25); }); }

    std::string run(const Program &p, Stats &st) override {
        int kind = kind_of(p[0].name.substr(4));
        std::vector<int> pins = kind_is_sched(kind) ? std::vector<int>{256} : backends_for(kind);
        // baseline transcripts per actual back end
        std::map<int, Transcript> base;
        for (int pin : pins) {
            ExecOptions eo; eo.force_be = pin;
            Exec ex(apis[0], eo);
            Transcript t = ex.run(p);
            int be = -1; for (auto &r : t) if (r.be >= 0) be = r.be;
            if (!base.count(be)) base[be] = t;
        }
        // the baseline against the specification model
        {
            Model m;
            std::string d = cmp_model(p, base.begin()->second, m.run(p), false);
            if (!d.empty()) return "baseline configuration " + apis[0].name + ": " + d;
        }
        size_t comparisons = 0;
        // "SIMD back ends compiled in or stubbed out" must not matter either: every transcript of every configuration
        // and back end is compared with the baseline's generic-back-end transcript (returns, outputs, images), and with
        // the baseline transcript of the *same* back end for the public fields (the parallel size depends on the back end)
        const Transcript &ref0 = base.begin()->second;
        CmpOpts cross; cross.img = true; cross.pub = false;
        for (auto &kv : base) {
            if (&kv.second == &ref0) continue;
            std::string d = cmp_transcripts(p, ref0, kv.second, cross, (apis[0].name + "/be" + std::to_string(base.begin()->first)).c_str(), (apis[0].name + "/be" + std::to_string(kv.first)).c_str());
            if (!d.empty()) return "baseline configuration: back ends disagree: " + d;
            ++comparisons;
        }
        for (size_t c = 1; c < apis.size(); ++c) {
            std::set<int> seen;
            for (int pin : pins) {
                ExecOptions eo; eo.force_be = pin;
                Exec ex(apis[c], eo);
                Transcript t = ex.run(p);
                int be = -1; for (auto &r : t) if (r.be >= 0) be = r.be;
                if (seen.count(be)) continue;
                seen.insert(be);
                std::string d = cmp_transcripts(p, ref0, t, cross, apis[0].name.c_str(), apis[c].name.c_str());
                if (d.empty() && base.count(be)) { CmpOpts like; like.img = true; like.pub = true; d = cmp_transcripts(p, base[be], t, like, apis[0].name.c_str(), apis[c].name.c_str()); }
                if (!d.empty()) return "configuration " + apis[c].name + " (back end " + std::to_string(be) + ") computes differently from " + apis[0].name + ": " + d;
                ++comparisons;
                if (!st.shrinking) st.count("config/" + apis[c].name + "/be" + std::to_string(be));
            }
        }
        if (!st.shrinking) {
            st.count(std::string("kind/") + p[0].name.substr(4));
            st.extra["configuration_pair_comparisons"] += (double)comparisons;
            bool data = false; for (auto &op : p) if (op.has("in")) data = true;
            st.case_done(ser(p), data);
        }
        return "";
    }
};
int main(int argc, char **argv) { C12 h; return skv_main(argc, argv, h); }
