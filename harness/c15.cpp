// C15 — object life cycle: init / cleanup in any order is safe, leak-free, idempotent.
// Stateful multi-object histories; the allocator monitor must always show exactly one live
// block per initialised, not-yet-cleaned object, no double / foreign free; after cleanup every
// int function returns 0 (API model); nothing is live at the end.
#include "lifecycle.hpp"
using namespace skv;

struct C15 : Harness {
    Api api = static_api();
    bool heap = false;
    void configure(const std::map<std::string, std::string> &kv) override { if (kv.count("heap")) heap = kv.at("heap") == "1"; }
    rc::Gen<Program> gen() override {
        return rc::gen::exec([]() {
            HistGen g;
            g.o.lifecycle = true; g.o.invalid = *chance(30); g.o.midstream = true; g.o.allocfail = true;
            // shapes: ordinary (1-6 objects, 4-60 calls) / crowd (7-24 objects, mostly of one kind: thresholds in the number of
            // live objects, creation and cleanup order among siblings) / churn (one or two objects initialised and cleaned up
            // 40-300 times: thresholds in the number of life cycles or calls)
            int shape = *rc::gen::weightedOneOf<int>({{90, rc::gen::just(0)}, {6, rc::gen::just(1)}, {4, rc::gen::just(2)}});
            int nslots = shape == 1 ? *irange(7, 24) : shape == 2 ? *irange(1, 2) : *irange(1, 6);
            int crowd_kind = *rc::gen::element((int)C128, (int)C64, (int)CM, (int)P128, (int)P64, (int)PM);
            for (int i = 0; i < nslots; ++i) {
                int kind = *rc::gen::element((int)C128, (int)C64, (int)CM, (int)P128, (int)P64, (int)PM);
                if (shape == 1 && *chance(75)) kind = crowd_kind;
                auto bes = backends_for(kind);
                g.add_slot(kind, *rc::gen::elementOf(bes), *rc::gen::element(0, 0, 0xFF, 0xA5, 0x01));
            }
            if (shape == 2) {
                int cycles = *irange(40, 300);
                for (int c = 0; c < cycles; ++c) {
                    int i = *irange(0, nslots - 1);
                    if (!g.ss[i].live) { g.step(i); if (g.ss[i].live && *chance(30)) g.step(i); }
                    else g.cleanup(i);
                }
            }
            int n = shape == 1 ? *irange(30, 200) : *irange(4, 60);
            for (int i = 0; i < n; ++i) g.step(*irange(0, nslots - 1));
            // a history may end with objects still live (the harness then checks the executor's own
            // final cleanup leaves nothing behind) or clean everything itself
            if (*chance(60)) for (int i = 0; i < nslots; ++i) if (g.ss[i].live) g.cleanup(i);
            return g.p;
        });
    }
    std::string run(const Program &p, Stats &st) override {
        MonHooks mh; mh.reset((int)(fnv64(ser(p)) % 9));
        ExecOptions eo; eo.hooks = &mh; eo.final_cleanup = false; eo.heap_buffers = heap;
        std::string res;
        {
            Exec ex(api, eo);
            Transcript t = ex.run(p);
            Model m;
            res = cmp_model(p, t, m.run(p), true);
            // every successful init of one kind with one back-end cap must be served by the same back end, whatever
            // happened before it (failed allocations, other objects' life cycles)
            if (res.empty()) {
                std::map<std::pair<std::string, long long>, int> chosen;
                for (size_t i = 0; i < p.size() && res.empty(); ++i) {
                    if (t[i].be < 0 || t[i].ret != 1) continue;
                    auto key = std::make_pair(p[i].name, p[i].geti("be", 256));
                    if (!chosen.count(key)) chosen[key] = t[i].be;
                    else if (chosen[key] != t[i].be)
                        res = "op #" + std::to_string(i) + " [" + ser(p[i]).substr(0, 120) + "]: served by back end " + std::to_string(t[i].be) +
                              " although an earlier identical init in this history got back end " + std::to_string(chosen[key]);
                }
            }
            if (res.empty()) {
                ex.finalize();
                if (skv_mon_live() != 0) res = "leak: " + std::to_string(skv_mon_live()) + " block(s) still allocated after every object has been cleaned up";
                else if (skv_mon_double() || skv_mon_foreign()) res = "double or foreign free during final cleanup";
            }
            if (res.empty() && !st.shrinking) {
                bool reinit = false, uac = false; int maxlive = 0; std::map<long long, int> state;   // 0 never, 1 live, 2 cleaned
                std::set<int> kinds_live;
                for (size_t i = 0; i < p.size(); ++i) {
                    const Op &op = p[i];
                    if (op.name.rfind("new.", 0) == 0) continue;
                    long long s = op.geti("s", -1);
                    std::string fn = op.name.substr(op.name.find('.') + 1);
                    if (s < 0) continue;
                    if (fn == "init" && t[i].ret == 1) { if (state[s] == 2) reinit = true; state[s] = 1; }
                    else if (fn == "cleanup") { if (state[s] == 1) state[s] = 2; else if (state[s] == 2) st.count("repeated-cleanup"); else st.count("cleanup-of-zeroed-object"); }
                    else if (state[s] == 2) uac = true;
                    maxlive = std::max(maxlive, t[i].live_slots);
                }
                // the statement's matrix: object kind x requested back end x (state of the object -> call made on it)
                {
                    std::map<long long, std::string> stt, knd; std::map<long long, long long> cap; long long nslot = 0;
                    for (size_t i = 0; i < p.size(); ++i) {
                        const Op &op = p[i];
                        std::string fn = op.name.substr(op.name.find('.') + 1);
                        if (op.name.rfind("new.", 0) == 0) { stt[nslot] = op.geti("fill") == 0 ? "zeroed" : "garbage"; knd[nslot] = fn; cap[nslot] = -1; ++nslot; continue; }
                        long long sl = op.geti("s", -1);
                        if (sl < 0 || !stt.count(sl)) continue;
                        if (fn == "init") cap[sl] = op.geti("be", 256);
                        std::string call = (fn == "enc" || fn == "dec" || fn == "crypt" || fn == "encrypt") ? "data" : fn;
                        st.count("trans/" + knd[sl] + (cap[sl] >= 0 ? "@cap" + std::to_string(cap[sl]) : "") + "/" + stt[sl] + "->" + call);
                        if (fn == "init") stt[sl] = t[i].ret == 1 ? "fresh" : "failed";
                        else if (fn == "cleanup") { if (stt[sl] != "zeroed" && stt[sl] != "garbage") stt[sl] = "cleaned"; }
                        else if ((fn == "set_key" || fn == "set_tweaked_key") && t[i].ret == 1) stt[sl] = "keyed";
                    }
                }
                if (reinit) st.count("re-init-after-cleanup");
                if (uac) st.count("use-after-cleanup");
                st.count("max-live-objects=" + std::string(maxlive > 8 ? ">8" : std::to_string(maxlive)));
                int cycles = 0; for (size_t i = 0; i < p.size(); ++i) if (p[i].name.find(".init") != std::string::npos && t[i].ret == 1) ++cycles;
                st.count(cycles >= 100 ? "life-cycles>=100" : cycles >= 20 ? "life-cycles=20..99" : "life-cycles<20");
                st.extra["frees"] += (double)skv_mon_frees();
                st.case_done(ser(p), reinit && uac && maxlive >= 2);
            }
        }
        return res;
    }
};
#ifndef SKV_NO_MAIN
int main(int argc, char **argv) { C15 h; return skv_main(argc, argv, h); }
#endif
