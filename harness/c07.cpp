// C07 — parallel ECB equals block-by-block ECB for every block count, on every back end.
// Oracle: the library's own single-block functions under a schedule keyed with the plain
// functions (no model needed), plus the API model as a second opinion; the advertised
// parallel size must be a positive multiple of the block size.
#include "gens.hpp"
#include "model.hpp"
using namespace skv;

struct C07 : Harness {
    Api api = static_api();
    rc::Gen<Program> gen() override {
        return rc::gen::exec([]() {
            Program p;
            int kind = *rc::gen::element((int)P128, (int)P64, (int)PM);
            int bs = kind_bs(kind);
            auto bes = backends_for(kind);
            p.push_back(mkop(std::string("new.") + kname(kind)));
            p.push_back(mkop(opn(kind, "init")).set("s", 0).set("be", *rc::gen::elementOf(bes)));
            Op k = mkop(opn(kind, "set_key")); k.set("s", 0);
            if (kind == PM) k.set("key", *gbytes(16)).set("len", 16).set("rounds", *irange(5, 8)).set("mode", *irange(0, 1));
            else { int len = *gkeylen(bs, 3, 10); k.set("key", *gbytes(len)).set("len", len); }
            k.set("ko", *goffset());
            p.push_back(k);
            int calls = *irange(1, 3);
            for (int c = 0; c < calls; ++c) {
                if (c > 0 && *chance(30)) {
                    // re-key the same object, often with a key related to the first (same bytes, zero-extended to another
                    // length class, truncated): a schedule kept from the earlier key would show as a mismatch
                    Op k2 = p[2];
                    if (kind != PM) {
                        Bytes key = *k2.getb("key");
                        int how = *irange(0, 3);
                        if (how == 0) key.resize((size_t)*irange(bs, 3 * bs), 0);
                        else if (how == 1) key = *gbytes((size_t)*gkeylen(bs, 3, 10));
                        else if (how == 2 && key.size() > (size_t)bs) key.resize((size_t)*irange(bs, (int)key.size()));
                        k2.set("key", key).set("len", (long long)key.size());
                    } else if (*chance(50)) k2.set("rounds", *irange(5, 8)).set("mode", *irange(0, 1));
                    p.push_back(k2);
                }
                // every count 0..40 is drawn often enough to be covered in each run; larger requests (up to 200 blocks)
                // reach code that only looks at "big" requests
                int nblk = *rc::gen::weightedOneOf<int>({{8, irange(0, 40)}, {1, irange(41, 200)}});
                size_t n = (size_t)nblk * bs;
                Op e = mkop(opn(kind, kind == PM ? "crypt" : (*chance(50) ? "enc" : "dec")));
                e.set("s", 0).set("in", *gblocks(n, (size_t)bs));
                if (kind == PM) e.set("tweak", *gblocks(n, 8)).set("to", *goffset());
                if (*chance(35)) e.set("ip", 1).set("io", *goffset()); else e.set("io", *goffset()).set("oo", *goffset());
                p.push_back(e);
                if (kind == PM && *chance(25)) p.push_back(mkop("pm.swap").set("s", 0));
            }
            // bystanders: one to three other objects of the same kind live their own lives around the object under test
            // (created before or after it, cleaned up in any order, re-initialised).  What the object under test computes
            // must not depend on them: contexts handed out from a shared pool, a registry of live objects, a cache keyed
            // on the wrong thing would show here.  Ops of bystanders carry by=1.
            if (*chance(25)) {
                int nby = *irange(1, 3);
                Program w;
                w.push_back(p[0]);
                for (int b = 0; b < nby; ++b) w.push_back(mkop(std::string("new.") + kname(kind)).set("by", 1).set("fill", *rc::gen::element(0, 0xA5)));
                std::vector<int> state(nby, 0);   // 0 not live, 1 live, 2 keyed
                auto by_step = [&](int b) {
                    int sl = b + 1;
                    if (state[b] == 0) { w.push_back(mkop(opn(kind, "init")).set("s", sl).set("by", 1).set("be", *rc::gen::elementOf(bes))); state[b] = 1; }
                    else if (state[b] == 1 || *chance(30)) {
                        Op kk = mkop(opn(kind, "set_key")); kk.set("s", sl).set("by", 1);
                        if (kind == PM) kk.set("key", *gbytes(16)).set("len", 16).set("rounds", *irange(5, 8)).set("mode", *irange(0, 1));
                        else { int len = bs * *irange(1, 3); kk.set("key", *gbytes(len)).set("len", len); }
                        w.push_back(kk); state[b] = 2;
                    } else if (*chance(35)) { w.push_back(mkop(opn(kind, "cleanup")).set("s", sl).set("by", 1)); state[b] = 0; }
                    else {
                        size_t n = (size_t)bs * (size_t)*irange(1, 20);
                        Op e = mkop(opn(kind, kind == PM ? "crypt" : (*chance(50) ? "enc" : "dec")));
                        e.set("s", sl).set("by", 1).set("in", *gdata(n));
                        if (kind == PM) e.set("tweak", *gdata(n));
                        w.push_back(e);
                    }
                };
                for (size_t i = 1; i < p.size(); ++i) {
                    int k = *irange(0, 3);
                    for (int j = 0; j < k; ++j) by_step(*irange(0, nby - 1));
                    w.push_back(p[i]);
                }
                int k = *irange(0, 2);
                for (int j = 0; j < k; ++j) by_step(*irange(0, nby - 1));
                p = w;
            }
            return p;
        });
    }
    std::string run(const Program &p, Stats &st) override {
        Exec ex(api);
        Transcript t = ex.run(p);
        int kind = kind_of(p[0].name.substr(4));
        int bs = kind_bs(kind);
        // block-by-block program over a caller-owned schedule
        int skind = kind == P128 ? K128 : kind == P64 ? K64 : MK;
        Program q;
        q.push_back(mkop(std::string("new.") + kname(skind)));
        std::vector<std::pair<size_t, size_t>> span;   // per op of p: [first, last) index in q of its blocks
        span.assign(p.size(), {0, 0});
        for (size_t i = 0; i < p.size(); ++i) {
            const Op &op = p[i];
            if (op.geti("by")) continue;
            std::string fn = op.name.substr(op.name.find('.') + 1);
            if (fn == "set_key") {
                Op k = mkop(opn(skind, "set_key")); k.set("s", 0).set("key", *op.getb("key")).set("len", op.geti("len"));
                if (kind == PM) k.set("rounds", op.geti("rounds")).set("mode", op.geti("mode"));
                q.push_back(k);
            } else if (fn == "swap") q.push_back(mkop("mk.swap").set("s", 0));
            else if (fn == "enc" || fn == "dec" || fn == "crypt") {
                const Bytes &in = *op.getb("in");
                span[i].first = q.size();
                for (size_t b = 0; b + bs <= in.size(); b += bs) {
                    Op e = mkop(opn(skind, kind == PM ? "crypt_tw" : fn.c_str()));
                    e.set("s", 0).set("in", Bytes(in.begin() + b, in.begin() + b + bs));
                    if (kind == PM) { const Bytes &tw = *op.getb("tweak"); e.set("tweak", Bytes(tw.begin() + b, tw.begin() + b + 8)); }
                    q.push_back(e);
                }
                span[i].second = q.size();
            }
        }
        Exec ex2(api);
        Transcript t2 = ex2.run(q);
        for (size_t i = 0; i < p.size(); ++i) {
            std::string where = "op #" + std::to_string(i) + " [" + ser(p[i]).substr(0, 160) + "]: ";
            if (!t[i].err.empty()) return where + "monitor: " + t[i].err;
            if (p[i].geti("by")) continue;   // (bystanders are judged by the API model below)
            if (span[i].second == span[i].first && !p[i].has("in")) {
                if (p[i].name.find(".init") != std::string::npos) {
                    size_t pp = t[i].pub.find('p');
                    long ps = pp == std::string::npos ? 0 : atol(t[i].pub.c_str() + pp + 1);
                    if (t[i].ret != 1) return where + "init failed";
                    if (ps <= 0 || ps % bs != 0) return where + "advertised parallel size " + std::to_string(ps) + " is not a positive multiple of the block size";
                }
                continue;
            }
            if (!p[i].has("in")) continue;
            if (t[i].ret != 1) return where + "returned " + std::to_string(t[i].ret) + " for a whole number of blocks";
            Bytes want;
            for (size_t j = span[i].first; j < span[i].second; ++j) want.insert(want.end(), t2[j].out.begin(), t2[j].out.end());
            if (t[i].out != want) {
                size_t b = 0; while (b < want.size() && t[i].out[b] == want[b]) ++b;
                return where + "differs from the single-block functions at block " + std::to_string(b / bs) + " of " + std::to_string(want.size() / bs) +
                       ": parallel=" + hex(t[i].out).substr(b / bs * bs * 2, 2 * bs) + " single=" + hex(want).substr(b / bs * bs * 2, 2 * bs);
            }
        }
        Model m;
        std::string d = cmp_model(p, t, m.run(p), false);
        if (!d.empty()) return d;
        if (!st.shrinking) {
            int be = -1; bool bystanders = false;
            for (size_t i = 0; i < p.size(); ++i) { if (p[i].geti("by")) bystanders = true; else if (be < 0 && p[i].name.find(".init") != std::string::npos) be = t[i].be; }
            if (bystanders) st.count("with-bystander-objects");
            size_t batch = be == 256 ? 8 : be == 128 ? (kind == P128 ? 4 : 8) : 1;
            bool nt = false;
            std::string kb = std::string(kname(kind)) + "/be" + std::to_string(be);
            for (auto &op : p) if (op.has("in") && !op.geti("by")) {
                size_t nb = op.getb("in")->size() / bs;
                st.count("blocks=" + std::to_string(nb));
                if (nb > batch && nb % batch != 0 && batch > 1) nt = true;
                if (op.geti("ip")) st.count("in-place");
            }
            st.count("kind/" + kb);
            st.case_done(ser(p), nt);
        }
        return "";
    }
};
int main(int argc, char **argv) { C07 h; return skv_main(argc, argv, h); }
