// Executor: runs a Program (prog.hpp) against one Api table (api.hpp) and records
// a transcript: return value, output bytes, active image of caller-owned
// objects, public handle fields, and facts observed by the built-in monitors
// (guard-zone damage, modified input buffers, writes past a caller-owned struct).
#pragma once
#include <climits>
#include <cstdint>
#include <cstring>
#include <map>
#include <string>
#include <vector>

#include <sys/mman.h>
#include "api.hpp"
#include "prog.hpp"

namespace skv {

enum Kind { K128, K64, T128, T64, MK, C128, C64, CM, P128, P64, PM, NKINDS };
static const char *const kKindNames[NKINDS] = {"k128", "k64", "t128", "t64", "mk", "c128", "c64", "cm", "p128", "p64", "pm"};
static inline int kind_of(const std::string &s) {
    for (int i = 0; i < NKINDS; ++i) if (s == kKindNames[i]) return i;
    return -1;
}
// the documented fields of the six handle types, read through the type they belong to (the types happen to share a
// layout today; nothing promises that)
static inline const void *handle_vtable(int kind, const void *obj) {
    switch (kind) {
    case C128: return ((const Skinny128CTR_t *)obj)->vtable;
    case C64: return ((const Skinny64CTR_t *)obj)->vtable;
    case CM: return ((const MantisCTR_t *)obj)->vtable;
    case P128: return ((const Skinny128ParallelECB_t *)obj)->vtable;
    case P64: return ((const Skinny64ParallelECB_t *)obj)->vtable;
    case PM: return ((const MantisParallelECB_t *)obj)->vtable;
    }
    return nullptr;
}
static inline void *handle_ctx(int kind, const void *obj) {
    switch (kind) {
    case C128: return ((const Skinny128CTR_t *)obj)->ctx;
    case C64: return ((const Skinny64CTR_t *)obj)->ctx;
    case CM: return ((const MantisCTR_t *)obj)->ctx;
    case P128: return ((const Skinny128ParallelECB_t *)obj)->ctx;
    case P64: return ((const Skinny64ParallelECB_t *)obj)->ctx;
    case PM: return ((const MantisParallelECB_t *)obj)->ctx;
    }
    return nullptr;
}
static inline size_t handle_parallel_size(int kind, const void *obj) {
    switch (kind) {
    case P128: return ((const Skinny128ParallelECB_t *)obj)->parallel_size;
    case P64: return ((const Skinny64ParallelECB_t *)obj)->parallel_size;
    case PM: return ((const MantisParallelECB_t *)obj)->parallel_size;
    }
    return 0;
}
static inline void handle_plant(int kind, void *obj, const void *vt, void *ctx) {
    switch (kind) {
    case C128: ((Skinny128CTR_t *)obj)->vtable = vt; ((Skinny128CTR_t *)obj)->ctx = ctx; break;
    case C64: ((Skinny64CTR_t *)obj)->vtable = vt; ((Skinny64CTR_t *)obj)->ctx = ctx; break;
    case CM: ((MantisCTR_t *)obj)->vtable = vt; ((MantisCTR_t *)obj)->ctx = ctx; break;
    case P128: ((Skinny128ParallelECB_t *)obj)->vtable = vt; ((Skinny128ParallelECB_t *)obj)->ctx = ctx; break;
    case P64: ((Skinny64ParallelECB_t *)obj)->vtable = vt; ((Skinny64ParallelECB_t *)obj)->ctx = ctx; break;
    case PM: ((MantisParallelECB_t *)obj)->vtable = vt; ((MantisParallelECB_t *)obj)->ctx = ctx; break;
    }
}
static inline int kind_bs(int k) { return (k == K128 || k == T128 || k == C128 || k == P128) ? 16 : 8; }
static inline bool kind_is_ctr(int k) { return k == C128 || k == C64 || k == CM; }
static inline bool kind_is_par(int k) { return k == P128 || k == P64 || k == PM; }
static inline bool kind_is_sched(int k) { return k <= MK; }
static inline size_t kind_size(int k) {
    switch (k) {
    case K128: return sizeof(Skinny128Key_t);
    case K64: return sizeof(Skinny64Key_t);
    case T128: return sizeof(Skinny128TweakedKey_t);
    case T64: return sizeof(Skinny64TweakedKey_t);
    case MK: return sizeof(MantisKey_t);
    case C128: return sizeof(Skinny128CTR_t);
    case C64: return sizeof(Skinny64CTR_t);
    case CM: return sizeof(MantisCTR_t);
    case P128: return sizeof(Skinny128ParallelECB_t);
    case P64: return sizeof(Skinny64ParallelECB_t);
    case PM: return sizeof(MantisParallelECB_t);
    }
    return 0;
}

static const int RET_VOID = INT_MIN;

struct Rec {
    int ret = RET_VOID;
    bool has_out = false;
    Bytes out;          // final content of the output buffer (filled with 0xEE before the call)
    Bytes img;          // active image of the caller-owned schedule after the call (empty if none)
    std::string pub;    // public handle fields after the call
    std::string err;    // monitor facts (empty = nothing observed)
    int be = -1;        // back end actually serving the object (init ops), -1 unknown
    int live_slots = 0; // handles with a successful init not yet cleaned up, after this op
};
typedef std::vector<Rec> Transcript;

struct ExecHooks {
    virtual ~ExecHooks() {}
    // called for every input buffer (key, tweak, counter, data) just before the call
    virtual void input(int /*role*/, void * /*p*/, size_t /*n*/) {}
    // called for every output buffer before and after the call
    virtual void output_pre(void * /*p*/, size_t /*n*/) {}
    virtual void output_post(void * /*p*/, size_t /*n*/) {}
    virtual void call_pre(const Op &) {}
    virtual void call_post(const Op &, Rec &) {}
    // every guard-delimited region backing the buffers of the current call (before the windows are opened)
    virtual void region(void * /*base*/, size_t /*len*/) {}
    // caller-owned object storage
    virtual void object(int /*kind*/, void * /*p*/, size_t /*n*/) {}
    // after the executor has updated its own bookkeeping for the op
    virtual void step_post(const Op &, Rec &, void * /*obj*/) {}
};
enum Role { ROLE_KEY, ROLE_TWEAK, ROLE_COUNTER, ROLE_DATA };

struct ExecOptions {
    int force_be = -1;          // -1: use the op's be= attribute
    ExecHooks *hooks = nullptr;
    bool final_cleanup = true;  // clean up objects still live at the end (not part of the transcript)
    int align_delta = 0;        // metamorphic: move every buffer to another alignment
    int straddle_4g = 0;        // metamorphic: > 0 puts the buffer arena this many bytes below the 4 GiB address line
    bool no_pin = false;        // never touch the back-end pin (multi-threaded scenarios set it once, before threads start)
    bool heap_buffers = false;  // every buffer is its own malloc block ending exactly at the buffer's end (for ASan)
};

class Exec {
public:
    enum : size_t { SLOT_BYTES = 1024, GUARD = 64, ARENA = 1 << 16 };
    enum : uint8_t { GUARD_BYTE = 0xC5, OUT_FILL = 0xEE };

    struct Slot {
        int kind = -1;
        uint8_t *mem = nullptr;   // SLOT_BYTES at base + ao
        uint8_t *base = nullptr;  // 64-aligned allocation
        size_t map_len = 0;       // != 0: base is a private mapping (ro=1)
        uint8_t fill = 0;
        bool keyed = false;       // a key-setting call on a caller-owned schedule succeeded
        int be = -1;
        bool live = false;        // successful init not yet cleaned up (handles)
    };

    Exec(const Api &api, const ExecOptions &opt = ExecOptions()) : a(api), o(opt) {
        if (o.straddle_4g > 0) {
            // the arena starts `straddle_4g` bytes (a multiple of 64) below the 4 GiB line: the first buffers of every call
            // have addresses with bit 31 set, and one of them usually crosses 2^32
            size_t len = 0x10000 + ARENA + 0x10000;
            void *want = (void *)(uintptr_t)0xFFFF0000u;
            void *m = mmap(want, len, PROT_READ | PROT_WRITE, MAP_PRIVATE | MAP_ANONYMOUS | MAP_FIXED_NOREPLACE, -1, 0);
            if (m == want) { low_map = m; low_len = len; arena = (uint8_t *)(uintptr_t)(0x100000000ull - (uint64_t)(o.straddle_4g & ~63)); return; }
            if (m != MAP_FAILED) munmap(m, len);
        }
        arena_raw.resize(ARENA + 128);
        arena = (uint8_t *)(((uintptr_t)arena_raw.data() + 63) & ~(uintptr_t)63);
    }
    ~Exec() { release(); if (low_map) munmap(low_map, low_len); }
    bool straddles_4g() const { return low_map != nullptr; }

    Transcript run(const Program &p) {
        release();
        Transcript t;
        t.reserve(p.size());
        for (const Op &op : p) {
            Rec r;
            // rep=N: the same call N times in a row (setter storms: thresholds in the number of calls between two data calls)
            long long rep = op.geti("rep", 1);
            for (long long k = 1; k < rep && k < (1 << 20); ++k) { Rec scratch; step(op, scratch); }
            step(op, r);
            // measured API surface: public function x back end of the object at that moment x answer
            if (op.name.rfind("new.", 0) != 0 && op.name.rfind("cap.", 0) != 0) {
                int be = r.be;
                if (be < 0) { Slot *sl = slot(op); if (sl && sl->live) be = sl->be; }
                ++api_call_counts()[op.name + (be >= 0 ? "@be" + std::to_string(be) : std::string()) + (r.ret == 0 ? "=0" : "")];
            }
            t.push_back(std::move(r));
        }
        if (o.final_cleanup) finalize();
        return t;
    }

    std::vector<Slot> &slot_table() { return slots; }
    Exec *shared = nullptr;
    // harness-owned memory that `new.<kind> plant=1` stores into the handle fields
    const void *planted_vtable = nullptr; void *planted_ctx = nullptr;

    void finalize() {
        for (Slot &s : slots) {
            if (!s.mem) continue;
            if (s.live) {
                switch (s.kind) {
                case C128: a.skinny128_ctr_cleanup((Skinny128CTR_t *)s.mem); break;
                case C64: a.skinny64_ctr_cleanup((Skinny64CTR_t *)s.mem); break;
                case CM: a.mantis_ctr_cleanup((MantisCTR_t *)s.mem); break;
                case P128: a.skinny128_parallel_ecb_cleanup((Skinny128ParallelECB_t *)s.mem); break;
                case P64: a.skinny64_parallel_ecb_cleanup((Skinny64ParallelECB_t *)s.mem); break;
                case PM: a.mantis_parallel_ecb_cleanup((MantisParallelECB_t *)s.mem); break;
                }
                s.live = false;
            }
        }
    }

private:
    const Api &a;
    ExecOptions o;
    std::vector<Slot> slots;
    std::vector<uint8_t> arena_raw;
    uint8_t *arena = nullptr;
    void *low_map = nullptr; size_t low_len = 0;
    size_t arena_pos = 0;
    struct Region { uint8_t *base; size_t len; };   // guard-delimited regions of the current call
    std::vector<Region> regions;

    void release() {
        finalize();
        free_heap_blocks();
        for (Slot &s : slots) if (s.base) { if (s.map_len) munmap(s.base, s.map_len); else free(s.base); }
        slots.clear();
    }

    // ---- buffer placement: [GUARD][off pad][n bytes][GUARD], pad/guards carry GUARD_BYTE
    std::vector<void *> heap_blocks;
    void free_heap_blocks() { for (void *q : heap_blocks) free(q); heap_blocks.clear(); }
    uint8_t *place(size_t n, unsigned off) {
        off = (off + (unsigned)o.align_delta) & 63;
        if (o.heap_buffers) {
            // the block ends exactly where the buffer ends, so ASan sees a one-byte overrun
            uint8_t *base = (uint8_t *)malloc(off + n ? off + n : 1);
            if (!base) abort();
            memset(base, GUARD_BYTE, off + n ? off + n : 1);
            heap_blocks.push_back(base);
            if (off + n) { regions.push_back(Region{base, off + n}); if (o.hooks) o.hooks->region(base, off + n); }
            return base + off;
        }
        size_t need = GUARD + 64 + n + GUARD;
        need = (need + 63) & ~(size_t)63;
        if (arena_pos + need > ARENA) { fprintf(stderr, "exec: arena exhausted\n"); abort(); }
        uint8_t *base = arena + arena_pos;
        memset(base, GUARD_BYTE, need);
        arena_pos += need;
        regions.push_back(Region{base, need});
        if (o.hooks) o.hooks->region(base, need);
        return base + GUARD + off;
    }
    uint8_t *place_in(int role, const Bytes *b, unsigned off) {
        if (!b) return nullptr;
        uint8_t *p = place(b->size(), off);
        if (!b->empty()) memcpy(p, b->data(), b->size());
        inputs.push_back(InRec{p, *b, role});
        return p;
    }
    uint8_t *place_out(size_t n, unsigned off) {
        uint8_t *p = place(n, off);
        memset(p, OUT_FILL, n);
        outs.push_back(OutRec{p, n});
        return p;
    }
    struct InRec { uint8_t *p; Bytes copy; int role; };
    struct OutRec { uint8_t *p; size_t n; };
    std::vector<InRec> inputs;
    std::vector<OutRec> outs;
    uint8_t *alias_lo = nullptr, *alias_hi = nullptr;   // output range allowed to overwrite an input

    void begin_call(const Op &op) {
        free_heap_blocks();
        arena_pos = 0; regions.clear(); inputs.clear(); outs.clear(); alias_lo = alias_hi = nullptr;
        ov_base = nullptr;
        (void)op;
    }
    void pre_call(const Op &op) {
        if (o.hooks) {
            for (auto &i : inputs) o.hooks->input(i.role, i.p, i.copy.size());
            for (auto &x : outs) o.hooks->output_pre(x.p, x.n);
            o.hooks->call_pre(op);
        }
    }
    void post_call(const Op &op, Rec &r) {
        if (o.hooks) {
            for (auto &x : outs) o.hooks->output_post(x.p, x.n);
            o.hooks->call_post(op, r);
        }
        // guard zones: everything in a region that is not an input/output payload must still be GUARD_BYTE
        for (auto &rg : regions) {
            std::vector<uint8_t> mask(rg.len, 0);
            for (auto &i : inputs) mark(mask, rg, i.p, i.copy.size());
            for (auto &x : outs) mark(mask, rg, x.p, x.n);
            for (size_t k = 0; k < rg.len; ++k)
                if (!mask[k] && rg.base[k] != GUARD_BYTE) { r.err += "guard-zone-written;"; break; }
        }
        // overlapping single-block call: inside the 3-block window only [out, out+bs) may change
        if (ov_base) {
            for (int k = 0; k < 3 * ov_bs; ++k) {
                uint8_t *q = ov_base + k;
                if (q >= ov_out && q < ov_out + ov_bs) continue;
                if (q >= ov_in && q < ov_in + ov_bs) continue;   // checked below as an input
                if (*q != OUT_FILL) { r.err += "write-outside-output;"; break; }
            }
        }
        // inputs must be unchanged unless aliased by an output
        for (auto &i : inputs) {
            for (size_t k = 0; k < i.copy.size(); ++k) {
                uint8_t *q = i.p + k;
                if (q >= alias_lo && q < alias_hi) continue;
                if (*q != i.copy[k]) { r.err += "input-buffer-modified;"; goto next; }
            }
        next:;
        }
    }
    static void mark(std::vector<uint8_t> &mask, const Region &rg, uint8_t *p, size_t n) {
        if (p >= rg.base && p < rg.base + rg.len)
            for (size_t k = 0; k < n && (size_t)(p - rg.base) + k < rg.len; ++k) mask[(p - rg.base) + k] = 1;
    }

    // ---- slots
    Slot *slot(const Op &op) {
        long long s = op.geti("s", -1);
        if (op.geti("sh") && shared) {   // object owned by another executor, used read-only here
            if (s < 0 || (size_t)s >= shared->slots.size()) return nullptr;
            return &shared->slots[(size_t)s];
        }
        if (s < 0 || (size_t)s >= slots.size()) return nullptr;
        return &slots[(size_t)s];
    }
    void check_slot_canary(Slot *s, Rec &r) {
        if (!s) return;
        size_t n = kind_size(s->kind);
        for (size_t k = n; k < SLOT_BYTES; ++k)
            if (s->mem[k] != s->fill) { r.err += "write-past-object;"; break; }
    }
    template <class KeyT> static void img_sched(const KeyT *ks, unsigned maxr, Bytes &img) {
        unsigned rounds = ks->rounds;
        img.insert(img.end(), (const uint8_t *)&rounds, (const uint8_t *)&rounds + 4);
        if (rounds > maxr) rounds = maxr;
        const uint8_t *p = (const uint8_t *)ks->schedule;
        img.insert(img.end(), p, p + rounds * sizeof(ks->schedule[0]));
    }
    void image(Slot *s, Rec &r) {
        if (!s) return;
        switch (s->kind) {
        case K128: if (s->keyed) img_sched((Skinny128Key_t *)s->mem, SKINNY128_MAX_ROUNDS, r.img); break;
        case K64: if (s->keyed) img_sched((Skinny64Key_t *)s->mem, SKINNY64_MAX_ROUNDS, r.img); break;
        case T128:
            if (s->keyed) {
                Skinny128TweakedKey_t *t = (Skinny128TweakedKey_t *)s->mem;
                img_sched(&t->ks, SKINNY128_MAX_ROUNDS, r.img);
                r.img.insert(r.img.end(), t->tweak, t->tweak + 16);
                r.pub = "tweak=" + hex(t->tweak, 16);
            }
            break;
        case T64:
            if (s->keyed) {
                Skinny64TweakedKey_t *t = (Skinny64TweakedKey_t *)s->mem;
                img_sched(&t->ks, SKINNY64_MAX_ROUNDS, r.img);
                r.img.insert(r.img.end(), t->tweak, t->tweak + 8);
                r.pub = "tweak=" + hex(t->tweak, 8);
            }
            break;
        case MK:
            if (s->keyed) {
                MantisKey_t *m = (MantisKey_t *)s->mem;
                r.img.insert(r.img.end(), (uint8_t *)&m->k0, (uint8_t *)&m->k0 + 8);
                r.img.insert(r.img.end(), (uint8_t *)&m->k0prime, (uint8_t *)&m->k0prime + 8);
                r.img.insert(r.img.end(), (uint8_t *)&m->k1, (uint8_t *)&m->k1 + 8);
                r.img.insert(r.img.end(), (uint8_t *)&m->tweak, (uint8_t *)&m->tweak + 8);
                r.img.insert(r.img.end(), (uint8_t *)&m->rounds, (uint8_t *)&m->rounds + 4);
            }
            break;
        case C128: case C64: case CM: {
            r.pub = std::string("v") + (handle_vtable(s->kind, s->mem) ? "1" : "0") + "c" + (handle_ctx(s->kind, s->mem) ? "1" : "0");
            break;
        }
        case P128: case P64: case PM: {
            r.pub = std::string("c") + (handle_ctx(s->kind, s->mem) ? "1" : "0") + "p" + std::to_string(handle_parallel_size(s->kind, s->mem));
            break;
        }
        }
    }

    void set_pin(const Op &op) {
        if (o.no_pin) return;
        int be = o.force_be >= 0 ? o.force_be : (int)op.geti("be", 256);
        if (a.vec_limit) *a.vec_limit = be;
    }
    void clear_pin() { if (o.no_pin) return; if (a.vec_limit) *a.vec_limit = 256; }

    // ---- the interpreter
    void step(const Op &op, Rec &r) {
        size_t dot = op.name.find('.');
        std::string pre = dot == std::string::npos ? op.name : op.name.substr(0, dot);
        std::string fn = dot == std::string::npos ? "" : op.name.substr(dot + 1);
        if (pre == "new") {
            Slot s;
            s.kind = kind_of(fn);
            if (s.kind < 0) { r.err = "bad-op;"; return; }
            s.fill = (uint8_t)op.geti("fill", 0);
            // ao: where the caller's object sits relative to a 64-byte boundary (a multiple of 8: the types need no more)
            size_t ao = (size_t)op.geti("ao", 0) & 56;
            if (op.geti("ro")) {
                // ro=1: the object lives in pages of its own which are read-only while a function that takes it as a
                // pointer-to-const runs (const means const: a schedule may sit in read-only memory or be shared by threads)
                s.map_len = 8192;
                s.base = (uint8_t *)mmap(nullptr, s.map_len, PROT_READ | PROT_WRITE, MAP_PRIVATE | MAP_ANONYMOUS, -1, 0);
                if (s.base == (uint8_t *)MAP_FAILED) abort();
            } else if (posix_memalign((void **)&s.base, 64, SLOT_BYTES + 64) != 0) abort();
            memset(s.base, s.fill, SLOT_BYTES + 64);
            s.mem = s.base + ao;
            if (op.geti("plant") && (kind_is_ctr(s.kind) || kind_is_par(s.kind))) {
                // prior content: a handle whose vtable/ctx fields point at harness-owned canary memory
                handle_plant(s.kind, s.mem, planted_vtable, planted_ctx);
            }
            if (o.hooks) o.hooks->object(s.kind, s.mem, kind_size(s.kind));
            slots.push_back(s);
            return;
        }
        int kind = kind_of(pre);
        if (kind < 0) { r.err = "bad-op;"; return; }
        Slot *s = slot(op);
        if (s && s->kind != kind) { r.err = "bad-op-kind;"; return; }
        void *obj = s ? (void *)s->mem : nullptr;
        bool ro = s && s->map_len && !op.geti("sh") &&
                  (fn == "enc" || fn == "dec" || fn == "crypt" || fn == "crypt_tw");   // the functions whose object parameter is const
        if (ro) { mprotect(s->base, s->map_len, PROT_READ); active_ro().lo = (uintptr_t)s->base; active_ro().hi = (uintptr_t)s->base + s->map_len; }
        struct Unprotect { Slot *s; bool on; ~Unprotect() { if (on) { active_ro().lo = active_ro().hi = 0; mprotect(s->base, s->map_len, PROT_READ | PROT_WRITE); } } } unprotect{s, ro};
        begin_call(op);
        switch (kind) {
        case K128: sched<Skinny128Key_t, Skinny128TweakedKey_t, 16>(op, fn, s, obj, r, false); break;
        case K64: sched<Skinny64Key_t, Skinny64TweakedKey_t, 8>(op, fn, s, obj, r, false); break;
        case T128: sched<Skinny128Key_t, Skinny128TweakedKey_t, 16>(op, fn, s, obj, r, true); break;
        case T64: sched<Skinny64Key_t, Skinny64TweakedKey_t, 8>(op, fn, s, obj, r, true); break;
        case MK: mantis(op, fn, s, obj, r); break;
        case C128: case C64: case CM: ctr(kind, op, fn, s, obj, r); break;
        case P128: case P64: case PM: par(kind, op, fn, s, obj, r); break;
        }
        check_slot_canary(s, r);
        image(s, r);
        for (const Slot &x : slots) if (x.live) ++r.live_slots;
        if (o.hooks) o.hooks->step_post(op, r, obj);
    }

    template <class KeyT, class TKeyT, int BS>
    void sched(const Op &op, const std::string &fn, Slot *s, void *obj, Rec &r, bool tweaked) {
        const bool is128 = BS == 16;
        if (fn == "set_key" || fn == "set_tweaked_key") {
            uint8_t *key = place_in(ROLE_KEY, op.getb("key"), (unsigned)op.geti("ko"));
            unsigned len = (unsigned)op.geti("len");
            pre_call(op);
            if (fn == "set_key")
                r.ret = is128 ? a.skinny128_set_key((Skinny128Key_t *)obj, key, len) : a.skinny64_set_key((Skinny64Key_t *)obj, key, len);
            else
                r.ret = is128 ? a.skinny128_set_tweaked_key((Skinny128TweakedKey_t *)obj, key, len)
                              : a.skinny64_set_tweaked_key((Skinny64TweakedKey_t *)obj, key, len);
            post_call(op, r);
            if (s && r.ret == 1) s->keyed = true;
        } else if (fn == "set_tweak") {
            uint8_t *tw = place_in(ROLE_TWEAK, op.getb("tweak"), (unsigned)op.geti("to"));
            unsigned len = (unsigned)op.geti("len");
            pre_call(op);
            r.ret = is128 ? a.skinny128_set_tweak((Skinny128TweakedKey_t *)obj, tw, len) : a.skinny64_set_tweak((Skinny64TweakedKey_t *)obj, tw, len);
            post_call(op, r);
        } else if (fn == "enc" || fn == "dec") {
            const Bytes *in = op.getb("in");
            if (!in || in->size() != (size_t)BS || !obj) { r.err = "bad-op;"; return; }
            uint8_t *ip, *outp;
            block_io(op, *in, BS, ip, outp);
            pre_call(op);
            // the schedule of a tweaked object is its documented member `ks`, wherever the structure keeps it
            const void *ks = obj;
            if (tweaked) ks = is128 ? (const void *)&((const Skinny128TweakedKey_t *)obj)->ks : (const void *)&((const Skinny64TweakedKey_t *)obj)->ks;
            if (fn == "enc") { if (is128) a.skinny128_ecb_encrypt(outp, ip, (const Skinny128Key_t *)ks); else a.skinny64_ecb_encrypt(outp, ip, (const Skinny64Key_t *)ks); }
            else { if (is128) a.skinny128_ecb_decrypt(outp, ip, (const Skinny128Key_t *)ks); else a.skinny64_ecb_decrypt(outp, ip, (const Skinny64Key_t *)ks); }
            post_call(op, r);
            r.has_out = true; r.out.assign(outp, outp + BS);
        } else r.err = "bad-op;";
    }

    // single-block input/output placement with optional overlap ov=d (out = in + d)
    void block_io(const Op &op, const Bytes &in, int bs, uint8_t *&ip, uint8_t *&outp) {
        if (op.has("ov")) {
            int d = (int)op.geti("ov");
            uint8_t *base = place((size_t)bs * 3, (unsigned)op.geti("io"));
            ip = base + bs; outp = base + bs + d;
            // payload bookkeeping: the whole 3-block window is "ours"; fill it as an output window, then lay the input
            memset(base, OUT_FILL, (size_t)bs * 3);
            memcpy(ip, in.data(), (size_t)bs);
            outs.push_back(OutRec{base, (size_t)bs * 3});
            inputs.push_back(InRec{ip, in, ROLE_DATA});
            alias_lo = outp; alias_hi = outp + bs;
            ov_base = base; ov_in = ip; ov_out = outp; ov_bs = bs;
        } else {
            ip = place_in(ROLE_DATA, &in, (unsigned)op.geti("io"));
            outp = place_out((size_t)bs, (unsigned)op.geti("oo"));
        }
    }
    uint8_t *ov_base = nullptr, *ov_in = nullptr, *ov_out = nullptr; int ov_bs = 0;

    void mantis(const Op &op, const std::string &fn, Slot *s, void *obj, Rec &r) {
        MantisKey_t *ks = (MantisKey_t *)obj;
        if (fn == "set_key") {
            uint8_t *key = place_in(ROLE_KEY, op.getb("key"), (unsigned)op.geti("ko"));
            pre_call(op);
            r.ret = a.mantis_set_key(ks, key, (unsigned)op.geti("len"), (unsigned)op.geti("rounds"), (int)op.geti("mode"));
            post_call(op, r);
            if (s && r.ret == 1) s->keyed = true;
        } else if (fn == "set_tweak") {
            uint8_t *tw = place_in(ROLE_TWEAK, op.getb("tweak"), (unsigned)op.geti("to"));
            pre_call(op);
            r.ret = a.mantis_set_tweak(ks, tw, (unsigned)op.geti("len"));
            post_call(op, r);
        } else if (fn == "swap") {
            if (!obj) { r.err = "bad-op;"; return; }
            pre_call(op);
            a.mantis_swap_modes(ks);
            post_call(op, r);
        } else if (fn == "crypt" || fn == "crypt_tw") {
            const Bytes *in = op.getb("in");
            if (!in || in->size() != 8 || !obj) { r.err = "bad-op;"; return; }
            uint8_t *ip, *outp;
            uint8_t *tw = nullptr;
            if (fn == "crypt_tw") {
                const Bytes *t = op.getb("tweak");
                if (!t || t->size() != 8) { r.err = "bad-op;"; return; }
                tw = place_in(ROLE_TWEAK, t, (unsigned)op.geti("to"));
            }
            block_io(op, *in, 8, ip, outp);
            pre_call(op);
            if (fn == "crypt") a.mantis_ecb_crypt(outp, ip, ks);
            else a.mantis_ecb_crypt_tweaked(outp, ip, tw, ks);
            post_call(op, r);
            r.has_out = true; r.out.assign(outp, outp + 8);
        } else r.err = "bad-op;";
    }

    int ctr_backend(int kind, void *obj) {
        const void *vt = handle_vtable(kind, obj);
        if (!vt) return -1;
        if (kind == C128) return vt == a.vt_s128_ctr_vec256 ? 256 : vt == a.vt_s128_ctr_vec128 ? 128 : 0;
        if (kind == C64) return vt == a.vt_s64_ctr_vec128 ? 128 : 0;
        return vt == a.vt_m_ctr_vec128 ? 128 : 0;
    }

    void ctr(int kind, const Op &op, const std::string &fn, Slot *s, void *obj, Rec &r) {
        Skinny128CTR_t *c128 = (Skinny128CTR_t *)obj; Skinny64CTR_t *c64 = (Skinny64CTR_t *)obj; MantisCTR_t *cm = (MantisCTR_t *)obj;
        if (fn == "init") {
            set_pin(op);
            pre_call(op);
            r.ret = kind == C128 ? a.skinny128_ctr_init(c128) : kind == C64 ? a.skinny64_ctr_init(c64) : a.mantis_ctr_init(cm);
            post_call(op, r);
            clear_pin();
            if (s && r.ret == 1) { s->live = true; s->be = ctr_backend(kind, obj); r.be = s->be; }
        } else if (fn == "cleanup") {
            pre_call(op);
            if (kind == C128) a.skinny128_ctr_cleanup(c128); else if (kind == C64) a.skinny64_ctr_cleanup(c64); else a.mantis_ctr_cleanup(cm);
            post_call(op, r);
            if (s) s->live = false;
        } else if (fn == "set_key" || fn == "set_tweaked_key") {
            uint8_t *key = place_in(ROLE_KEY, op.getb("key"), (unsigned)op.geti("ko"));
            unsigned len = (unsigned)op.geti("len");
            pre_call(op);
            if (fn == "set_key")
                r.ret = kind == C128 ? a.skinny128_ctr_set_key(c128, key, len) : kind == C64 ? a.skinny64_ctr_set_key(c64, key, len)
                                     : a.mantis_ctr_set_key(cm, key, len, (unsigned)op.geti("rounds"));
            else if (kind == CM) { r.err = "bad-op;"; return; }
            else r.ret = kind == C128 ? a.skinny128_ctr_set_tweaked_key(c128, key, len) : a.skinny64_ctr_set_tweaked_key(c64, key, len);
            post_call(op, r);
        } else if (fn == "set_tweak") {
            uint8_t *tw = place_in(ROLE_TWEAK, op.getb("tweak"), (unsigned)op.geti("to"));
            unsigned len = (unsigned)op.geti("len");
            pre_call(op);
            r.ret = kind == C128 ? a.skinny128_ctr_set_tweak(c128, tw, len) : kind == C64 ? a.skinny64_ctr_set_tweak(c64, tw, len) : a.mantis_ctr_set_tweak(cm, tw, len);
            post_call(op, r);
        } else if (fn == "set_counter") {
            uint8_t *cp = place_in(ROLE_COUNTER, op.getb("ctr"), (unsigned)op.geti("co"));
            unsigned len = (unsigned)op.geti("len");
            pre_call(op);
            r.ret = kind == C128 ? a.skinny128_ctr_set_counter(c128, cp, len) : kind == C64 ? a.skinny64_ctr_set_counter(c64, cp, len) : a.mantis_ctr_set_counter(cm, cp, len);
            post_call(op, r);
        } else if (fn == "encrypt") {
            const Bytes *in = op.getb("in");
            size_t n = in ? in->size() : (size_t)op.geti("n");
            bool onull = op.geti("onull") != 0;
            bool ip = op.geti("ip") != 0 && in && !onull;
            uint8_t *inp = nullptr, *outp = nullptr;
            if (ip) {
                outp = place(n, (unsigned)op.geti("io"));
                if (n) memcpy(outp, in->data(), n);
                outs.push_back(OutRec{outp, n});
                inputs.push_back(InRec{outp, *in, ROLE_DATA});   // the same bytes are the call's input
                inp = outp; alias_lo = outp; alias_hi = outp + n;
            } else {
                inp = place_in(ROLE_DATA, in, (unsigned)op.geti("io"));
                if (!onull) outp = place_out(n, (unsigned)op.geti("oo"));
            }
            pre_call(op);
            r.ret = kind == C128 ? a.skinny128_ctr_encrypt(outp, inp, n, c128) : kind == C64 ? a.skinny64_ctr_encrypt(outp, inp, n, c64) : a.mantis_ctr_encrypt(outp, inp, n, cm);
            post_call(op, r);
            if (outp) { r.has_out = true; r.out.assign(outp, outp + n); }
        } else r.err = "bad-op;";
    }

    int par_backend(int kind, void *obj) {
        if (!handle_vtable(kind, obj)) return 0;
        if (kind == P128) return handle_parallel_size(kind, obj) == 128 ? 256 : 128;
        return 128;
    }

    void par(int kind, const Op &op, const std::string &fn, Slot *s, void *obj, Rec &r) {
        Skinny128ParallelECB_t *p128 = (Skinny128ParallelECB_t *)obj; Skinny64ParallelECB_t *p64 = (Skinny64ParallelECB_t *)obj; MantisParallelECB_t *pm = (MantisParallelECB_t *)obj;
        if (fn == "init") {
            set_pin(op);
            pre_call(op);
            r.ret = kind == P128 ? a.skinny128_parallel_ecb_init(p128) : kind == P64 ? a.skinny64_parallel_ecb_init(p64) : a.mantis_parallel_ecb_init(pm);
            post_call(op, r);
            clear_pin();
            if (s && r.ret == 1) { s->live = true; s->be = par_backend(kind, obj); r.be = s->be; }
        } else if (fn == "cleanup") {
            pre_call(op);
            if (kind == P128) a.skinny128_parallel_ecb_cleanup(p128); else if (kind == P64) a.skinny64_parallel_ecb_cleanup(p64); else a.mantis_parallel_ecb_cleanup(pm);
            post_call(op, r);
            if (s) s->live = false;
        } else if (fn == "set_key") {
            uint8_t *key = place_in(ROLE_KEY, op.getb("key"), (unsigned)op.geti("ko"));
            unsigned len = (unsigned)op.geti("len");
            pre_call(op);
            r.ret = kind == P128 ? a.skinny128_parallel_ecb_set_key(p128, key, len) : kind == P64 ? a.skinny64_parallel_ecb_set_key(p64, key, len)
                                 : a.mantis_parallel_ecb_set_key(pm, key, len, (unsigned)op.geti("rounds"), (int)op.geti("mode"));
            post_call(op, r);
        } else if (fn == "swap") {
            if (kind != PM) { r.err = "bad-op;"; return; }
            pre_call(op);
            a.mantis_parallel_ecb_swap_modes(pm);
            post_call(op, r);
        } else if (fn == "enc" || fn == "dec" || fn == "crypt") {
            const Bytes *in = op.getb("in");
            if (!in) { r.err = "bad-op;"; return; }   // data pointers are never NULL (not in the contract)
            size_t n = in->size();
            bool ip = op.geti("ip") != 0;
            uint8_t *inp, *outp, *tw = nullptr;
            if (kind == PM) {
                const Bytes *t = op.getb("tweak");
                if (!t || t->size() != n || fn != "crypt") { r.err = "bad-op;"; return; }
                tw = place_in(ROLE_TWEAK, t, (unsigned)op.geti("to"));
            } else if (fn == "crypt") { r.err = "bad-op;"; return; }
            if (ip) {
                outp = place(n, (unsigned)op.geti("io"));
                if (n) memcpy(outp, in->data(), n);
                outs.push_back(OutRec{outp, n});
                inputs.push_back(InRec{outp, *in, ROLE_DATA});   // the same bytes are the call's input
                inp = outp; alias_lo = outp; alias_hi = outp + n;
            } else {
                inp = place_in(ROLE_DATA, in, (unsigned)op.geti("io"));
                outp = place_out(n, (unsigned)op.geti("oo"));
            }
            pre_call(op);
            if (kind == P128) r.ret = fn == "enc" ? a.skinny128_parallel_ecb_encrypt(outp, inp, n, p128) : a.skinny128_parallel_ecb_decrypt(outp, inp, n, p128);
            else if (kind == P64) r.ret = fn == "enc" ? a.skinny64_parallel_ecb_encrypt(outp, inp, n, p64) : a.skinny64_parallel_ecb_decrypt(outp, inp, n, p64);
            else r.ret = a.mantis_parallel_ecb_crypt(outp, inp, tw, n, pm);
            post_call(op, r);
            r.has_out = true; r.out.assign(outp, outp + n);
        } else r.err = "bad-op;";
    }
};

// ---------------------------------------------------------------- transcript comparison helpers
struct CmpOpts { bool ret = true, out = true, img = false, pub = false, err = true; };

static inline std::string rec_str(const Rec &r) {
    std::string s = "ret=" + (r.ret == RET_VOID ? std::string("void") : std::to_string(r.ret));
    if (r.has_out) s += " out=" + hex(r.out);
    if (!r.pub.empty()) s += " pub=" + r.pub;
    if (!r.err.empty()) s += " err=" + r.err;
    return s;
}

// returns "" if equal, else description of the first difference
static inline std::string cmp_transcripts(const Program &p, const Transcript &x, const Transcript &y, const CmpOpts &c,
                                          const char *nx, const char *ny) {
    if (x.size() != y.size()) return "transcript length differs";
    for (size_t i = 0; i < x.size(); ++i) {
        const Rec &a = x[i], &b = y[i];
        const char *what = nullptr;
        if (c.ret && a.ret != b.ret) what = "return value";
        else if (c.out && (a.has_out != b.has_out || a.out != b.out)) what = "output bytes";
        else if (c.img && a.img != b.img) what = "object image";
        else if (c.pub && a.pub != b.pub) what = "public fields";
        else if (c.err && a.err != b.err) what = "monitor facts";
        if (what)
            return std::string("op #") + std::to_string(i) + " [" + ser(p[i]).substr(0, 200) + "]: " + what + " differ: " + nx + "{" +
                   rec_str(a).substr(0, 400) + "} vs " + ny + "{" + rec_str(b).substr(0, 400) + "}";
    }
    return "";
}

}  // namespace skv
