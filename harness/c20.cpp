// C20 — example tools: file encryption matches the library and round-trips; invalid options
// exit non-zero without producing output.  Process-level property test: files, keys,
// counters/tweaks and options are generated, the tools built from the current tree are run,
// and their output files are compared with the library computing the same thing in-process.
#include <spawn.h>
#include <sys/stat.h>
#include <sys/wait.h>
#include "gens.hpp"
using namespace skv;
extern char **environ;

struct C20 : Harness {
    Api api = static_api();
    std::string tools, tmp;
    bool bigfile = false;     // thorough tier: now and then an input file of more than 4 GiB (sparse)
    void configure(const std::map<std::string, std::string> &kv) override {
        if (kv.count("tools")) tools = kv.at("tools");
        if (kv.count("bigfile")) bigfile = kv.at("bigfile") == "1";
        char t[] = "/tmp/skv-c20-XXXXXX";
        // scratch files (up to 8 GiB for the big-input cases) live in the driver's per-run work directory, which the driver
        // removes whatever happens to this process (a shard that is killed on its time limit cannot clean up after itself)
        const char *base = getenv("SKV_TMP");
        std::string dir = base ? base : "/tmp";
        if (kv.count("out")) { std::string o = kv.at("out"); size_t sl = o.rfind('/'); if (sl != std::string::npos && sl > 0) dir = o.substr(0, sl); }
        std::string templ = dir + "/c20-XXXXXX";
        std::vector<char> buf(templ.begin(), templ.end()); buf.push_back(0);
        if (mkdtemp(buf.data())) tmp = buf.data();
        (void)t;
    }
    ~C20() { if (!tmp.empty()) { std::string c = "rm -rf '" + tmp + "'"; int r = system(c.c_str()); (void)r; } }
    std::string selftest() override {
        if (tools.empty() || tmp.empty()) return "no --tools directory / no temp directory";
        for (const char *t : {"skinny-ctr", "skinny-tweak", "skinny-ecb"}) { struct stat sb; if (stat((tools + "/" + t).c_str(), &sb) != 0) return std::string("tool missing: ") + t; }
        return ref::selftest();
    }

    // getopt accepts options in any order: permute the option groups (-b, -k, -c/-t, -d) by `order`
    static std::vector<std::string> arrange(std::vector<std::vector<std::string>> groups, int order) {
        std::vector<std::vector<std::string>> g;
        for (auto &x : groups) if (!x.empty()) g.push_back(x);
        std::vector<std::string> out;
        while (!g.empty()) { size_t i = (size_t)order % g.size(); order /= (int)g.size() ? (int)g.size() : 1; for (auto &a : g[i]) out.push_back(a); g.erase(g.begin() + (long)i); }
        return out;
    }
    int run_tool(const std::string &tool, const std::vector<std::string> &args) {
        std::vector<char *> argv;
        std::string path = tools + "/" + tool;
        argv.push_back((char *)path.c_str());
        for (auto &a : args) argv.push_back((char *)a.c_str());
        argv.push_back(nullptr);
        posix_spawn_file_actions_t fa; posix_spawn_file_actions_init(&fa);
        posix_spawn_file_actions_addopen(&fa, 1, "/dev/null", O_WRONLY, 0);
        posix_spawn_file_actions_addopen(&fa, 2, "/dev/null", O_WRONLY, 0);
        pid_t pid; int status = -1;
        if (posix_spawn(&pid, path.c_str(), &fa, nullptr, argv.data(), environ) != 0) { posix_spawn_file_actions_destroy(&fa); return -1; }
        posix_spawn_file_actions_destroy(&fa);
        waitpid(pid, &status, 0);
        return WIFEXITED(status) ? WEXITSTATUS(status) : 128 + (WIFSIGNALED(status) ? WTERMSIG(status) : 0);
    }

    rc::Gen<Program> gen() override {
        bool bf = bigfile;
        return rc::gen::exec([bf]() {
            Program p;
            int tool = *irange(0, 2);   // 0 ctr, 1 tweak, 2 ecb
            if (bf && *irange(0, 9999) < 2) {      // (about eight such cases per shard of 40 000: each costs 10-60 s)
                // an all-zero input of 2^32 + k bytes (sparse on disk); checked by length and by sampled blocks
                int bs = *rc::gen::element(8, 16);
                Op c = mkop("tool");
                c.set("tool", tool).set("bs", bs).set("bflag", 1).set("order", 0).set("key", *gbytes((size_t)bs)).set("file", Bytes()).set("bigzero", (1LL << 32) + *irange(1, 5000));
                p.push_back(c);
                return p;
            }
            int bs = *rc::gen::element(8, 16);
            bool bflag = bs == 8 || *chance(50);     // block size 128 is the default
            int maxk = tool == 1 ? 2 * bs : 3 * bs;
            Op c = mkop("tool");
            c.set("tool", tool).set("bs", bs).set("bflag", bflag ? 1 : 0).set("order", *irange(0, 23));   // order of the option groups on the command line
            if (*chance(22)) {
                // invalid invocation
                int w = *irange(0, 8);
                c.set("invalid", w + 1);
                c.set("key", *gbytes(*irange(bs, maxk)));
                if (w == 1) c.set("key", *gbytes(*rc::gen::element(1, bs - 1)));        // key too short
                if (w == 2) c.set("key", *gbytes(*irange(maxk + 1, 48 + 8)));            // key too long for tool / block size
                if (w == 3) c.set("ctr", *gbytes(*irange(bs + 1, 16 + 8)));              // counter / tweak longer than the block
                c.set("file", *gdata(*irange(0, 100)));
                p.push_back(c);
                return p;
            }
            c.set("key", *gbytes(*gkeylen(bs, maxk / bs, 30)));
            if (tool != 2 && *chance(70)) { int l = *rc::gen::weightedOneOf<int>({{2, rc::gen::just(bs)}, {3, irange(1, bs)}}); c.set("ctr", *gcounter(l)); }
            int flen = *rc::gen::weightedOneOf<int>({{4, rc::gen::element(0, 1, bs - 1, bs, bs + 1, 1023, 1024, 1025, 2047, 2048, 2049, 2048 + bs + 3)}, {3, irange(0, 5000)}, {2, irange(0, 100)}});
            c.set("file", *gdata(flen));
            // now and then the input arrives through a FIFO whose writer pauses after `fifo` bytes (a pipe is a file too:
            // `producer | tool /dev/stdin out`): the reader sees a short read in mid-stream
            if (flen > 0 && *chance(10)) c.set("fifo", *rc::gen::weightedOneOf<int>({{3, irange(1, std::max(1, flen))}, {2, rc::gen::element(1, bs - 1, bs + 1, 100, 1000, 1023, 1025)}}));
            p.push_back(c);
            return p;
        });
    }

    // in-process library computations
    Bytes lib_ctr(int bs, const Bytes &key, const Bytes *ctr, const Bytes &in) {
        Bytes out(in.size());
        uint8_t d = 0;
        if (bs == 16) {
            Skinny128CTR_t c; api.skinny128_ctr_init(&c); api.skinny128_ctr_set_key(&c, key.data(), (unsigned)key.size());
            if (ctr) api.skinny128_ctr_set_counter(&c, ctr->data(), (unsigned)ctr->size());
            api.skinny128_ctr_encrypt(in.empty() ? &d : out.data(), in.empty() ? &d : in.data(), in.size(), &c); api.skinny128_ctr_cleanup(&c);
        } else {
            Skinny64CTR_t c; api.skinny64_ctr_init(&c); api.skinny64_ctr_set_key(&c, key.data(), (unsigned)key.size());
            if (ctr) api.skinny64_ctr_set_counter(&c, ctr->data(), (unsigned)ctr->size());
            api.skinny64_ctr_encrypt(in.empty() ? &d : out.data(), in.empty() ? &d : in.data(), in.size(), &c); api.skinny64_ctr_cleanup(&c);
        }
        return out;
    }
    Bytes lib_ecb(int bs, const Bytes &key, const Bytes &in, bool dec) {
        size_t n = in.size() / bs * bs;
        Bytes out(n);
        if (bs == 16) { Skinny128Key_t k; api.skinny128_set_key(&k, key.data(), (unsigned)key.size()); for (size_t i = 0; i < n; i += 16) (dec ? api.skinny128_ecb_decrypt : api.skinny128_ecb_encrypt)(&out[i], &in[i], &k); }
        else { Skinny64Key_t k; api.skinny64_set_key(&k, key.data(), (unsigned)key.size()); for (size_t i = 0; i < n; i += 8) (dec ? api.skinny64_ecb_decrypt : api.skinny64_ecb_encrypt)(&out[i], &in[i], &k); }
        return out;
    }
    Bytes lib_tweak(int bs, const Bytes &key, const Bytes *tw0, const Bytes &in, bool dec) {
        size_t n = in.size() / bs * bs;
        Bytes out(n);
        Bytes tw = tw0 ? *tw0 : Bytes(bs, 0);       // counter over the given tweak length, big endian
        Skinny128TweakedKey_t k128; Skinny64TweakedKey_t k64;
        if (bs == 16) api.skinny128_set_tweaked_key(&k128, key.data(), (unsigned)key.size()); else api.skinny64_set_tweaked_key(&k64, key.data(), (unsigned)key.size());
        for (size_t i = 0; i < n; i += bs) {
            if (bs == 16) { api.skinny128_set_tweak(&k128, tw.data(), (unsigned)tw.size()); (dec ? api.skinny128_ecb_decrypt : api.skinny128_ecb_encrypt)(&out[i], &in[i], &k128.ks); }
            else { api.skinny64_set_tweak(&k64, tw.data(), (unsigned)tw.size()); (dec ? api.skinny64_ecb_decrypt : api.skinny64_ecb_encrypt)(&out[i], &in[i], &k64.ks); }
            for (size_t j = tw.size(); j-- > 0;) if (++tw[j] != 0) break;
        }
        return out;
    }

    // more than 4 GiB of zero bytes through a tool: output length and sampled blocks against the library
    std::string run_big(const Op &c, int tool, int bs, const Bytes &key, const std::string &in, const std::string &out, Stats &st, const std::string &sertext) {
        static const char *names[3] = {"skinny-ctr", "skinny-tweak", "skinny-ecb"};
        size_t len = (size_t)c.geti("bigzero");
        { int fd = open(in.c_str(), O_WRONLY | O_CREAT | O_TRUNC, 0644); if (fd < 0 || ftruncate(fd, (off_t)len) != 0) { if (fd >= 0) close(fd); return ""; } close(fd); }
        int rc = run_tool(names[tool], {"-b", bs == 8 ? "64" : "128", "-k", hex(key), in, out});
        std::string res;
        if (rc != 0) res = std::string(names[tool]) + " exited with status " + std::to_string(rc) + " for an input of " + std::to_string(len) + " bytes";
        struct stat sb; size_t want_len = tool == 0 ? len : len / bs * bs;
        if (res.empty() && (stat(out.c_str(), &sb) != 0 || (size_t)sb.st_size != want_len))
            res = std::string(names[tool]) + ": output has " + std::to_string(stat(out.c_str(), &sb) == 0 ? (long long)sb.st_size : -1LL) + " bytes, expected " + std::to_string(want_len) + " for an input of " + std::to_string(len);
        if (res.empty()) {
            FILE *f = fopen(out.c_str(), "rb");
            uint64_t x = 88172645463325252ULL;
            std::vector<size_t> blocks = {0, 1, (size_t)((1ULL << 32) / bs) - 1, (size_t)((1ULL << 32) / bs), (size_t)((1ULL << 32) / bs) + 1, want_len / bs - 1};
            for (int i = 0; i < 200; ++i) { x ^= x << 13; x ^= x >> 7; x ^= x << 17; blocks.push_back((size_t)(x % (want_len / bs))); }
            for (size_t b : blocks) {
                if (!res.empty() || !f) break;
                if ((b + 1) * (size_t)bs > want_len) continue;     // (an input barely over 4 GiB has no block at or after the 2^32 line)
                uint8_t got[16], zero[16] = {0}, wantb[16];
                if (fseeko(f, (off_t)(b * bs), SEEK_SET) != 0 || fread(got, 1, (size_t)bs, f) != (size_t)bs) { res = "cannot read block " + std::to_string(b) + " of the output"; break; }
                if (tool == 0) {
                    uint8_t ctr[16] = {0}; uint64_t v = b; for (int i = bs - 1; i >= 0 && v; --i) { ctr[i] = (uint8_t)v; v >>= 8; }
                    Bytes k = lib_ecb(bs, key, Bytes(ctr, ctr + bs), false); memcpy(wantb, k.data(), (size_t)bs);
                } else if (tool == 1) {
                    Bytes tw(bs, 0); uint64_t v = b; for (int i = bs - 1; i >= 0 && v; --i) { tw[(size_t)i] = (uint8_t)v; v >>= 8; }
                    Skinny128TweakedKey_t k128; Skinny64TweakedKey_t k64;
                    if (bs == 16) { api.skinny128_set_tweaked_key(&k128, key.data(), (unsigned)key.size()); api.skinny128_set_tweak(&k128, tw.data(), 16); api.skinny128_ecb_encrypt(wantb, zero, &k128.ks); }
                    else { api.skinny64_set_tweaked_key(&k64, key.data(), (unsigned)key.size()); api.skinny64_set_tweak(&k64, tw.data(), 8); api.skinny64_ecb_encrypt(wantb, zero, &k64.ks); }
                } else { Bytes k = lib_ecb(bs, key, Bytes(zero, zero + bs), false); memcpy(wantb, k.data(), (size_t)bs); }
                if (memcmp(got, wantb, (size_t)bs) != 0) res = std::string(names[tool]) + ": block " + std::to_string(b) + " of the output for a " + std::to_string(len) + "-byte input differs from the library";
            }
            if (f) fclose(f);
        }
        unlink(in.c_str()); unlink(out.c_str());
        if (res.empty() && !st.shrinking) { st.count("input>4GiB"); st.case_done(sertext, true); }
        return res;
    }

    std::string run(const Program &p, Stats &st) override {
        const Op &c = p[0];
        int tool = (int)c.geti("tool"), bs = (int)c.geti("bs");
        static const char *names[3] = {"skinny-ctr", "skinny-tweak", "skinny-ecb"};
        const Bytes &key = *c.getb("key"); const Bytes *ctr = c.getb("ctr"); const Bytes &file = *c.getb("file");
        std::string in = tmp + "/in.bin", out = tmp + "/out.bin", back = tmp + "/back.bin";
        unlink(out.c_str()); unlink(back.c_str());
        write_file(in, std::string(file.begin(), file.end()));
        std::vector<std::string> base;
        if (c.geti("bflag")) { base.push_back("-b"); base.push_back(bs == 8 ? "64" : "128"); }
        if (c.geti("bigzero")) return run_big(c, tool, bs, key, in, out, st, ser(p));
        int inv = (int)c.geti("invalid");
        if (inv) {
            std::vector<std::string> a = base;
            std::string what;
            if (inv != 1) { a.push_back("-k"); a.push_back(hex(key)); }
            if (inv == 1) what = "no -k option";
            if (inv == 2) what = "key too short";
            if (inv == 3) what = "key too long";
            if (inv == 4) {
                std::vector<std::string> gc = {tool == 1 ? "-t" : "-c", hex(*ctr)};
                a = arrange({base, {"-k", hex(key)}, gc}, (int)c.geti("order"));
                what = "counter/tweak longer than the block";
            }
            if (inv == 5) { a.clear(); a.push_back("-b"); a.push_back("96"); a.push_back("-k"); a.push_back(hex(key)); what = "bad -b value"; }
            if (inv == 6) { a.pop_back(); a.push_back("0123456789abcdefzz" + hex(key)); what = "non-hex digits in the key"; }
            if (inv == 7) { a.pop_back(); a.push_back(""); what = "empty key"; }
            if (inv == 8) { a.push_back("-x"); what = "unknown option"; }
            std::string infile = in;
            if (inv == 9) { infile = tmp + "/does-not-exist.bin"; what = "unreadable input file"; }
            a.push_back(infile); a.push_back(out);
            int rc = run_tool(names[tool], a);
            struct stat sb; bool exists = stat(out.c_str(), &sb) == 0;
            if (rc == 0) return std::string(names[tool]) + " exited with status 0 for an invalid invocation (" + what + ")";
            if (exists) return std::string(names[tool]) + " produced an output file for an invalid invocation (" + what + ")";
            if (!st.shrinking) { st.count(std::string("invalid/") + what); st.case_done(ser(p), true); }
            return "";
        }
        int order = (int)c.geti("order");
        std::vector<std::string> gk = {"-k", hex(key)}, gc;
        if (ctr && tool != 2) gc = {tool == 1 ? "-t" : "-c", hex(*ctr)};
        std::vector<std::string> a = arrange({base, gk, gc}, order);
        long long fifo = c.geti("fifo");
        std::string inpath = in;
        pid_t writer = -1;
        if (fifo > 0) {
            inpath = tmp + "/in.fifo";
            unlink(inpath.c_str());
            if (mkfifo(inpath.c_str(), 0600) != 0) fifo = 0, inpath = in;
            else {
                writer = fork();
                if (writer == 0) {
                    int fd = open(inpath.c_str(), O_WRONLY);
                    if (fd < 0) _exit(1);
                    size_t first = std::min<size_t>((size_t)fifo, file.size());
                    size_t off = 0;
                    while (off < first) { ssize_t w = write(fd, file.data() + off, first - off); if (w <= 0) _exit(1); off += (size_t)w; }
                    if (off < file.size()) usleep(4000);
                    while (off < file.size()) { ssize_t w = write(fd, file.data() + off, file.size() - off); if (w <= 0) _exit(1); off += (size_t)w; }
                    close(fd);
                    _exit(0);
                }
            }
        }
        std::vector<std::string> enc = a; enc.push_back(inpath); enc.push_back(out);
        int rc = run_tool(names[tool], enc);
        if (writer > 0) { kill(writer, SIGKILL); int wst; waitpid(writer, &wst, 0); unlink(inpath.c_str()); }
        if (rc != 0 && fifo > 0) {
            // a tool may insist on a seekable input - but then it has to say so: no output, non-zero status
            struct stat sb; if (stat(out.c_str(), &sb) == 0 && sb.st_size > 0) return std::string(names[tool]) + " exited with status " + std::to_string(rc) + " for a FIFO input but left output behind";
            if (!st.shrinking) { st.count("fifo-input-refused"); st.case_done(ser(p), true); }
            return "";
        }
        if (rc != 0) return std::string(names[tool]) + " exited with status " + std::to_string(rc) + " for a valid invocation";
        if (fifo > 0 && !st.shrinking) st.count("fifo-input-with-pause");
        std::string got = read_file(out);
        Bytes gotb(got.begin(), got.end());
        Bytes want = tool == 0 ? lib_ctr(bs, key, ctr, file) : tool == 1 ? lib_tweak(bs, key, ctr, file, false) : lib_ecb(bs, key, file, false);
        if (gotb.size() != want.size()) return std::string(names[tool]) + ": output has " + std::to_string(gotb.size()) + " bytes, expected " + std::to_string(want.size()) + " for an input of " + std::to_string(file.size());
        if (gotb != want) { size_t k = 0; while (gotb[k] == want[k]) ++k; return std::string(names[tool]) + ": output differs from the library at byte " + std::to_string(k) + " of " + std::to_string(want.size()); }
        // round trip
        std::vector<std::string> dec = arrange({base, gk, gc, tool != 0 ? std::vector<std::string>{"-d"} : std::vector<std::string>{}}, order / 3 + 1);
        dec.push_back(out); dec.push_back(back);
        rc = run_tool(names[tool], dec);
        if (rc != 0) return std::string(names[tool]) + " (decrypt) exited with status " + std::to_string(rc);
        std::string b2 = read_file(back);
        Bytes orig(file.begin(), file.begin() + want.size());
        if (Bytes(b2.begin(), b2.end()) != orig) return std::string(names[tool]) + ": running the tool again does not restore the input";
        if (!st.shrinking) {
            bool between = key.size() % bs != 0, shortc = ctr && (int)ctr->size() < bs, ragged = file.size() % bs != 0 && file.size() > 1024;
            st.count(std::string(names[tool]) + "/b" + std::to_string(bs * 8));
            if (between) st.count("in-between-key-length"); if (shortc) st.count("short-counter-or-tweak"); if (ragged) st.count("len>1024-not-multiple-of-block");
            if (file.empty()) st.count("empty-file");
            st.extra["tool_runs"] += 2;
            st.case_done(ser(p), between || shortc || ragged);
        }
        return "";
    }
};
int main(int argc, char **argv) { C20 h; return skv_main(argc, argv, h); }
