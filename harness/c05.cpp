// C05 — CTR mode: output = input xor E(c), E(c+1), ... however the calls split the data.
// Structured programs (setup ; segment*) executed on the real library, compared with the
// API model (model.hpp) built on the specification ciphers (ref.hpp).
#include "gens.hpp"
#include "model.hpp"

using namespace skv;

struct C05 : Harness {
    Api api = static_api();
    bool have256 = false;
    C05() { have256 = api.has_vec256() != 0; }

    rc::Gen<Program> gen() override {
        return rc::gen::exec([this]() {
            Program p;
            int flavor = *irange(0, 4);   // 0 c128 plain, 1 c128 tweaked, 2 c64 plain, 3 c64 tweaked, 4 mantis
            int kind = flavor <= 1 ? C128 : flavor <= 3 ? C64 : CM;
            bool tweaked = flavor == 1 || flavor == 3;
            auto bes = backends_for(kind);
            int be = *rc::gen::elementOf(bes);
            p.push_back(mkop(std::string("new.") + kname(kind)));
            p.push_back(mkop(opn(kind, "init")).set("s", 0).set("be", be));
            bool early_counter = *chance(15);   // set_counter before the key is in place
            if (early_counter) p.push_back(gen_set_counter(kind, 0));
            gen_ctr_keying(p, kind, tweaked, 0, 10);
            int nseg = *irange(1, 3);
            for (int sgi = 0; sgi < nseg; ++sgi) {
                bool first = sgi == 0;
                if (!first && *chance(35)) {
                    // key or tweak change in between: always followed by an explicit counter (C05's domain)
                    if ((tweaked || kind == CM) && *chance(50)) {
                        Op t = mkop(opn(kind, "set_tweak"));
                        int bs = kind_bs(kind);
                        int tl = kind == CM ? 8 : *irange(1, bs);
                        t.set("s", 0);
                        if (*chance(15)) t.setnull("tweak"); else t.set("tweak", *gbytes(tl));
                        t.set("len", tl);
                        p.push_back(t);
                    } else gen_ctr_keying(p, kind, tweaked, 0, 10, false);
                    p.push_back(gen_set_counter(kind, 0));
                } else if (!first || early_counter || *chance(70)) {
                    if (!(first && early_counter)) p.push_back(gen_set_counter(kind, 0));
                }
                int nch = *irange(1, 6);
                if (*chance(2)) {
                    // dribble: hundreds of calls of a few bytes each on one stream (thresholds in the number of calls,
                    // every block boundary crossed by the byte-wise path)
                    int calls = *irange(256, 600);
                    for (int c = 0; c < calls; ++c) {
                        Op e = mkop(opn(kind, "encrypt"));
                        e.set("s", 0).set("in", *gdata((size_t)*irange(0, 5)));
                        if (*chance(30)) e.set("ip", 1).set("io", *goffset()); else e.set("io", *goffset()).set("oo", *goffset());
                        p.push_back(e);
                    }
                    nch = *irange(0, 2);
                }
                for (int c = 0; c < nch; ++c) p.push_back(gen_ctr_chunk(kind, 0));
            }
            if (*chance(50)) p.push_back(mkop(opn(kind, "cleanup")).set("s", 0));
            // bystanders (ops carry by=1): other CTR objects of the same kind created, used and cleaned up in any order around
            // the stream under test; its output must not depend on them (contexts from a shared pool, registries of live objects)
            if (*chance(15)) {
                int nby = *irange(1, 3);
                Program w;
                w.push_back(p[0]);
                for (int b = 0; b < nby; ++b) w.push_back(mkop(std::string("new.") + kname(kind)).set("by", 1));
                std::vector<int> state(nby, 0);   // 0 not live, 1 live, 2 keyed
                auto by_step = [&](int b) {
                    int sl = b + 1;
                    if (state[b] == 0) { w.push_back(mkop(opn(kind, "init")).set("s", sl).set("by", 1).set("be", *rc::gen::elementOf(bes))); state[b] = 1; }
                    else if (state[b] == 1 || *chance(25)) { Program kq; gen_ctr_keying(kq, kind, tweaked, sl, 0, false); for (Op &o : kq) { o.set("by", 1); w.push_back(o); } state[b] = 2; }
                    else if (*chance(35)) { w.push_back(mkop(opn(kind, "cleanup")).set("s", sl).set("by", 1)); state[b] = 0; }
                    else if (*chance(30)) { Op c = gen_set_counter(kind, sl); c.set("by", 1); w.push_back(c); }
                    else { Op e = gen_ctr_chunk(kind, sl); e.set("by", 1); w.push_back(e); }
                };
                for (size_t i = 1; i < p.size(); ++i) {
                    int k = *irange(0, 3);
                    for (int j = 0; j < k; ++j) by_step(*irange(0, nby - 1));
                    w.push_back(p[i]);
                }
                p = w;
            }
            return p;
        });
    }

    std::string run(const Program &p, Stats &st) override {
        Exec ex(api);
        Transcript t = ex.run(p);
        Model m;
        std::vector<MRec> exp = m.run(p);
        std::string d = cmp_model(p, t, exp);
        if (!d.empty()) return d;
        // applying the same stream twice restores the data: feed the outputs back through an identical program
        Program q = p;
        for (size_t i = 0; i < q.size(); ++i)
            if (q[i].name.size() > 8 && q[i].name.substr(q[i].name.size() - 8) == ".encrypt" && t[i].has_out && t[i].ret == 1) q[i].set("in", t[i].out);
        Exec ex2(api);
        Transcript t2 = ex2.run(q);
        for (size_t i = 0; i < q.size(); ++i) {
            if (q[i].name.size() > 8 && q[i].name.substr(q[i].name.size() - 8) == ".encrypt" && t[i].ret == 1) {
                const Bytes *in = p[i].getb("in");
                if (!in || !t2[i].has_out || t2[i].out != *in)
                    return "op #" + std::to_string(i) + ": applying the same key stream twice does not restore the data";
            }
        }
        classify(p, t, st);
        return "";
    }

    void classify(const Program &p, const Transcript &t, Stats &st) {
        if (st.shrinking) return;
        int kind = -1, be = -1; bool tweaked = false;
        bool have_counter = false, default_ctr = false, short_ctr = false, null_ctr = false, carry2 = false, wrap = false, ragged = false, zero_call = false, inplace = false, odd_place = false;
        Bytes ctr; size_t pos = 0; int bs = 8;
        size_t total = 0; bool bystanders = false;
        for (size_t i = 0; i < p.size(); ++i) {
            const Op &op = p[i];
            if (op.geti("by")) { bystanders = true; continue; }
            size_t dot = op.name.find('.');
            std::string fn = op.name.substr(dot + 1);
            if (op.name.rfind("new.", 0) == 0) { kind = kind_of(fn); bs = kind_bs(kind); ctr.assign(bs, 0); continue; }
            if (fn == "init") be = t[i].be;
            if (fn == "set_tweaked_key") tweaked = true;
            if (fn == "set_counter" && t[i].ret == 1) {
                have_counter = true;
                unsigned len = (unsigned)op.geti("len");
                const Bytes *c = op.getb("ctr");
                if (!c) null_ctr = true; else if ((int)len < bs) short_ctr = true;
                ctr.assign(bs, 0);
                if (c) for (unsigned k = 0; k < len; ++k) ctr[bs - len + k] = (*c)[k];
                pos = 0;
            }
            if ((fn == "set_key" || fn == "set_tweaked_key" || fn == "set_tweak") && t[i].ret == 1) pos = 0;
            if (fn == "encrypt" && t[i].ret == 1) {
                const Bytes *in = op.getb("in");
                size_t n = in ? in->size() : 0;
                if (n == 0) zero_call = true;
                if (op.geti("ip")) inplace = true;
                if ((op.geti("io") | op.geti("oo")) & 7) odd_place = true;
                if (!have_counter && n) default_ctr = true;
                // walk blocks consumed by this call
                size_t end = pos + n;
                size_t batch = be == 256 ? 128 : be == 128 ? (size_t)(bs == 16 ? 64 : 64) : (size_t)bs;
                if (pos / batch != end / batch && (pos % batch != 0 || end % batch != 0) && end > batch) ragged = true;
                size_t b0 = pos / bs, b1 = (end + bs - 1) / bs;
                for (size_t b = b0; b < b1; ++b) {
                    // does the increment from block b to b+1 carry through >= 2 bytes?
                    Bytes c = ctr;
                    // add b to ctr
                    size_t add = b;
                    for (size_t k = c.size(); k-- > 0 && add;) { size_t v = c[k] + (add & 0xff); c[k] = (uint8_t)v; add = (add >> 8) + (v >> 8); }
                    bool allff = true; for (auto v : c) allff = allff && v == 0xff;
                    if (allff) wrap = true;
                    if (c[c.size() - 1] == 0xff && c[c.size() - 2] == 0xff) carry2 = true;
                }
                pos = end; total += n;
            }
        }
        std::string kb = std::string(kind >= 0 ? kname(kind) : "?") + (tweaked ? "t" : "") + "/be" + std::to_string(be);
        st.count("kind/" + kb);
        if (default_ctr) st.count("default-counter");
        if (short_ctr) st.count("short-counter");
        if (null_ctr) st.count("null-counter");
        if (carry2) st.count("carry>=2bytes");
        if (wrap) st.count("wrap-around");
        if (ragged) st.count("ragged-batch-crossing");
        if (zero_call) st.count("zero-length-call");
        if (inplace) st.count("in-place");
        if (odd_place) st.count("odd-placement");
        if (total > 256) st.count("stream>256B");
        if (bystanders) st.count("with-bystander-objects");
        { size_t ncalls = 0; for (auto &op : p) if (op.name.find(".encrypt") != std::string::npos) ++ncalls; if (ncalls >= 256) st.count("calls>=256-on-one-object"); }
        // crossed with cipher flavour and back end (the statement quantifies over both)
        for (auto &pr : std::vector<std::pair<bool, const char *>>{{default_ctr, "default-counter"}, {short_ctr, "short-counter"}, {null_ctr, "null-counter"}, {carry2, "carry>=2bytes"},
                 {wrap, "wrap-around"}, {ragged, "ragged-batch-crossing"}, {zero_call, "zero-length-call"}, {inplace, "in-place"}, {odd_place, "odd-placement"}, {total > 256, "stream>256B"}, {bystanders, "with-bystander-objects"}})
            if (pr.first) st.count("cell/" + kb + "/" + pr.second);
        bool nt = ragged || carry2 || wrap || default_ctr || short_ctr || null_ctr;
        st.case_done(ser(p), nt);
    }
};

#ifndef SKV_NO_MAIN
int main(int argc, char **argv) {
    C05 h;
    return skv_main(argc, argv, h);
}
#endif
