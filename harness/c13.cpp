// C13 — back-end selection is deterministic, accurate and never exceeds the CPU.
//  (a) real CPU: every init function (and the two internal probes) is called through a trampoline
//      that fills the caller-saved registers and the stack below with generated garbage; the selected
//      back end must equal what an independent probe in the harness says, every time.
//  (b) modelled CPU (hook H3): generated CPU models answer CPUID / XGETBV; selection must equal
//      f(model), XGETBV must never be executed on a model without OSXSAVE, and repeated calls with
//      different garbage (incl. the unspecified ECX of plain __cpuid) must agree.
#include <cpuid.h>
#include <sys/wait.h>
#include "gens.hpp"
using namespace skv;

extern "C" long skv_tramp(void *fn, void *arg, const uint64_t *garbage);
extern "C" { void skv_mon_fail_at(unsigned long k); void skv_mon_reset(void); int skv_mon_live(void); }

struct CpuModel {
    uint32_t maxleaf = 0x16, l1edx = 0, l1ecx = 0, l7max = 0, l7ebx[3] = {0, 0, 0}, xcr0 = 7;
    bool amd = false;              // out-of-range leaves: AMD returns zeros, Intel the data of the highest basic leaf
    uint32_t vendor[3] = {0x756e6547, 0x49656e69, 0x6c65746e};   // leaf 0 EBX, EDX, ECX ("GenuineIntel")
    uint32_t l1eax = 0x000906ea, l1ebx = 0x00100800;             // family / model / stepping, brand / APIC data
    uint32_t garbage_ecx = 0;      // delivered as the sub-leaf whenever the code uses plain __cpuid
    uint32_t hi_regs[4] = {0, 0, 0, 0};   // data of the highest basic leaf (for Intel out-of-range behaviour)
    bool xgetbv_illegal = false;   // set when XGETBV is executed although OSXSAVE is clear
    unsigned cpuid_calls = 0;
};
static CpuModel *g_cpu = nullptr;
static void model_cpuid(uint32_t leaf, uint32_t subleaf, int subleaf_valid, uint32_t regs[4]) {
    CpuModel &c = *g_cpu;
    ++c.cpuid_calls;
    if (!subleaf_valid) subleaf = c.garbage_ecx;
    regs[0] = regs[1] = regs[2] = regs[3] = 0;
    if (leaf >= 0x80000000u) return;
    if (leaf > c.maxleaf) { if (!c.amd) { leaf = c.maxleaf; if (leaf != 0 && leaf != 1 && leaf != 7) { memcpy(regs, c.hi_regs, 16); return; } } else return; }
    if (leaf == 0) { regs[0] = c.maxleaf; regs[1] = c.vendor[0]; regs[2] = c.vendor[2]; regs[3] = c.vendor[1]; }
    else if (leaf == 1) { regs[0] = c.l1eax; regs[1] = c.l1ebx; regs[2] = c.l1ecx; regs[3] = c.l1edx; }
    else if (leaf == 7) { if (subleaf <= c.l7max) { regs[0] = subleaf == 0 ? c.l7max : 0; regs[1] = c.l7ebx[subleaf < 3 ? subleaf : 2]; } }
    else memcpy(regs, c.hi_regs, 16);
}
static uint32_t model_xcr0() {
    CpuModel &c = *g_cpu;
    if (!(c.l1ecx & (1u << 27))) c.xgetbv_illegal = true;   // #UD on a real processor
    return c.xcr0;
}

struct C13 : Harness {
    Api api = static_api();
    bool comp128 = true, comp256 = true;
    int which = 2;   // 0 real-CPU cases only, 1 modelled only (each case in a forked child), 2 both (replay)
    void configure(const std::map<std::string, std::string> &kv) override {
        if (kv.count("cases")) which = kv.at("cases") == "real" ? 0 : kv.at("cases") == "model" ? 1 : 2;
        if (kv.count("vec128")) comp128 = kv.at("vec128") == "1";
        if (kv.count("vec256")) comp256 = kv.at("vec256") == "1";
    }
    // independent ground truth for the real CPU
    static void real_cpu(bool &sse2, bool &avx2) {
        unsigned a, b, c, d;
        __cpuid(0, a, b, c, d);
        unsigned maxleaf = a;
        __cpuid(1, a, b, c, d);
        sse2 = (d >> 26) & 1;
        bool osxsave = (c >> 27) & 1, avx = (c >> 28) & 1;
        avx2 = false;
        if (maxleaf >= 7 && osxsave && avx) {
            unsigned lo, hi;
            __asm__ __volatile__("xgetbv" : "=a"(lo), "=d"(hi) : "c"(0));
            if ((lo & 6) == 6) { __cpuid_count(7, 0, a, b, c, d); avx2 = (b >> 5) & 1; }
        }
    }

    rc::Gen<Program> gen() override {
        int w = which;
        return rc::gen::exec([w]() {
            Program p;
            bool modelled = w == 2 ? (bool)*chance(60) : w == 1;
            if (modelled) {
                Op c = mkop("cpu");
                bool all = *chance(25);     // "everything present" baseline models
                uint32_t edx = (uint32_t)*rc::gen::arbitrary<uint32_t>(), ecx = (uint32_t)*rc::gen::arbitrary<uint32_t>();
                auto bit = [&](int pct) { return all ? true : (bool)*chance(pct); };
                edx = (edx & ~(1u << 26)) | ((uint32_t)bit(80) << 26);
                edx = (edx & ~(1u << 25)) | ((uint32_t)bit(85) << 25);
                ecx = (ecx & ~(1u << 27)) | ((uint32_t)bit(75) << 27);
                ecx = (ecx & ~(1u << 28)) | ((uint32_t)bit(75) << 28);
                uint32_t ebx0 = (uint32_t)*rc::gen::arbitrary<uint32_t>();
                ebx0 = (ebx0 & ~(1u << 5)) | ((uint32_t)bit(65) << 5);
                int maxleaf = all ? 0x16 : *rc::gen::weightedOneOf<int>({{3, irange(1, 6)}, {2, rc::gen::just(7)}, {5, irange(8, 0x20)}});
                int xcr0 = all ? 7 : *rc::gen::element(0x1, 0x3, 0x5, 0x7, 0xe7, 0x6, 0x2);
                c.set("maxleaf", maxleaf).set("l1edx", edx).set("l1ecx", ecx).set("l7max", *irange(0, 2)).set("l7ebx0", ebx0)
                    .set("l7ebx1", (long long)*rc::gen::arbitrary<uint32_t>()).set("l7ebx2", (long long)*rc::gen::arbitrary<uint32_t>())
                    .set("xcr0", xcr0).set("amd", *irange(0, 1)).set("hi", *gbytes(16));
                // who made the CPU and which one it is must not matter: vendor string (leaf 0) and family / model / stepping
                // (leaf 1 EAX) of real parts - Intel Skylake / Haswell / Atom, AMD Excavator / Zen / Zen+ / Zen 2 / Zen 3, Hygon,
                // Centaur / Zhaoxin - or arbitrary bytes
                static const char *vendors[] = {"GenuineIntel", "AuthenticAMD", "HygonGenuine", "CentaurHauls", "  Shanghai  ", "GenuineIntel"};
                Bytes vend(12);
                if (*chance(85)) { const char *v = vendors[*irange(0, 5)]; vend.assign(v, v + 12); } else vend = *gbytes(12);
                uint32_t sig = *chance(80) ? (uint32_t)*rc::gen::element<uint32_t>(0x000906eau, 0x000306c3u, 0x000506c9u, 0x00660f01u, 0x00800f11u, 0x00800f82u, 0x00870f10u, 0x00a20f10u, 0x00900f02u, 0x000006fbu, 0x00000f43u)
                                             : (uint32_t)*rc::gen::arbitrary<uint32_t>();
                c.set("vendor", vend).set("l1eax", (long long)sig).set("l1ebx", (long long)*rc::gen::arbitrary<uint32_t>());
                p.push_back(c);
            }
            int n = *irange(2, 8);
            for (int i = 0; i < n; ++i) {
                Op o = mkop(*rc::gen::element(std::string("c128.init"), std::string("c64.init"), std::string("cm.init"), std::string("p128.init"),
                                              std::string("p64.init"), std::string("pm.init"), std::string("probe.vec128"), std::string("probe.vec256")));
                Bytes g = *rc::gen::weightedOneOf<Bytes>({{3, rc::gen::container<Bytes>(80, rc::gen::arbitrary<uint8_t>())}, {1, rc::gen::just(Bytes(80, 0))}, {1, rc::gen::just(Bytes(80, 0xff))}});
                o.set("g", g);
                // now and then the init's allocation fails: it must report failure (C16), and - what matters here - must not
                // change what later initialisations select
                if (o.name.find(".init") != std::string::npos && *chance(10)) o.set("failat", 1);
                p.push_back(o);
            }
            return p;
        });
    }

    // A modelled CPU is put in place of the real one for one case.  If the library kept anything from
    // an earlier probe (a cache would be legitimate for C13: a real CPU never changes), cases would
    // influence each other, so every modelled case runs in a forked child of a parent that never
    // calls the library itself.
    std::string run(const Program &p, Stats &st) override {
        bool modelled_case = !p.empty() && p[0].name == "cpu";
        if (!modelled_case || which == 2 && false) return run_here(p, st);
        int fd[2];
        if (pipe(fd) != 0) return run_here(p, st);
        fflush(stdout); fflush(stderr);
        pid_t pid = fork();
        if (pid < 0) { close(fd[0]); close(fd[1]); return run_here(p, st); }
        if (pid == 0) {
            close(fd[0]);
            Stats dummy; dummy.shrinking = true;
            std::string r = run_here(p, dummy);
            ssize_t w = write(fd[1], r.data(), r.size()); (void)w;
            _exit(0);
        }
        close(fd[1]);
        std::string r; char buf[1024]; ssize_t n;
        while ((n = read(fd[0], buf, sizeof buf)) > 0) r.append(buf, (size_t)n);
        close(fd[0]);
        int status = 0; waitpid(pid, &status, 0);
        if (!WIFEXITED(status) || WEXITSTATUS(status) != 0) return "the process died while initialising on a modelled CPU (status " + std::to_string(status) + ")";
        if (!r.empty()) return r;
        classify(p, st);
        return "";
    }
    void classify(const Program &p, Stats &st) {
        if (st.shrinking) return;
        const Op &c = p[0];
        uint32_t maxleaf = (uint32_t)c.geti("maxleaf"), l1edx = (uint32_t)c.geti("l1edx"), l1ecx = (uint32_t)c.geti("l1ecx"), xcr0 = (uint32_t)c.geti("xcr0"), ebx0 = (uint32_t)c.geti("l7ebx0");
        bool sse2 = maxleaf >= 1 && ((l1edx >> 26) & 1), osx = (l1ecx >> 27) & 1, avx = (l1ecx >> 28) & 1, bit5 = (ebx0 >> 5) & 1;
        bool avx2 = maxleaf >= 7 && osx && avx && (xcr0 & 6) == 6 && bit5;
        st.count(std::string("model/sse2=") + (sse2 ? "1" : "0") + "/avx2-usable=" + (avx2 ? "1" : "0"));
        if (const Bytes *v = c.getb("vendor")) { std::string vs(v->begin(), v->end()); bool printable = true; for (char ch : vs) printable = printable && ch >= 32 && ch < 127; st.count("model/vendor=" + (printable ? vs : std::string("(arbitrary bytes)"))); }
        if (bit5 && !avx2) st.count(std::string("model/avx2-bit-set-but-unusable/") + (maxleaf < 7 ? "maxleaf<7" : !osx ? "no-osxsave" : !avx ? "no-avx" : "xcr0"));
        st.extra["calls"] += (double)(p.size() - 1);
        st.case_done(ser(p), !(sse2 && avx2));
    }
    std::string run_here(const Program &p, Stats &st) {
        CpuModel cpu; bool modelled = false;
        bool sse2 = false, avx2 = false;
        size_t first = 0;
        if (!p.empty() && p[0].name == "cpu") {
            modelled = true; first = 1;
            const Op &c = p[0];
            cpu.maxleaf = (uint32_t)c.geti("maxleaf"); cpu.l1edx = (uint32_t)c.geti("l1edx"); cpu.l1ecx = (uint32_t)c.geti("l1ecx");
            cpu.l7max = (uint32_t)c.geti("l7max"); cpu.l7ebx[0] = (uint32_t)c.geti("l7ebx0"); cpu.l7ebx[1] = (uint32_t)c.geti("l7ebx1"); cpu.l7ebx[2] = (uint32_t)c.geti("l7ebx2");
            cpu.xcr0 = (uint32_t)c.geti("xcr0"); cpu.amd = c.geti("amd") != 0;
            if (const Bytes *v = c.getb("vendor")) if (v->size() >= 12) memcpy(cpu.vendor, v->data(), 12);
            if (c.has("l1eax")) cpu.l1eax = (uint32_t)c.geti("l1eax");
            if (c.has("l1ebx")) cpu.l1ebx = (uint32_t)c.geti("l1ebx");
            const Bytes *hi = c.getb("hi"); if (hi && hi->size() >= 16) memcpy(cpu.hi_regs, hi->data(), 16);
            sse2 = cpu.maxleaf >= 1 && ((cpu.l1edx >> 26) & 1);
            bool osx = (cpu.l1ecx >> 27) & 1, avx = (cpu.l1ecx >> 28) & 1;
            avx2 = cpu.maxleaf >= 7 && osx && avx && (cpu.xcr0 & 6) == 6 && ((cpu.l7ebx[0] >> 5) & 1);
        } else real_cpu(sse2, avx2);
        bool want128 = comp128 && sse2, want256 = comp256 && avx2;
        std::string res;
        alignas(64) uint8_t obj[256];
        for (size_t i = first; i < p.size() && res.empty(); ++i) {
            const Op &op = p[i];
            const Bytes *g = op.getb("g");
            uint64_t garbage[10] = {0};
            if (g && g->size() >= 80) memcpy(garbage, g->data(), 80);
            cpu.garbage_ecx = (uint32_t)garbage[0];
            std::string where = "op #" + std::to_string(i) + " [" + op.name + "]: ";
            if (modelled) { g_cpu = &cpu; *api.cpuid_hook = model_cpuid; *api.xcr0_hook = model_xcr0; }
            memset(obj, (int)(garbage[9] & 0xff), sizeof obj);
            long ret = 0; int kind = -1;
            if (op.name == "probe.vec128") ret = (int)skv_tramp((void *)api.has_vec128, nullptr, garbage);
            else if (op.name == "probe.vec256") ret = (int)skv_tramp((void *)api.has_vec256, nullptr, garbage);
            else {
                kind = kind_of(op.name.substr(0, op.name.find('.')));
                void *fn = kind == C128 ? (void *)api.skinny128_ctr_init : kind == C64 ? (void *)api.skinny64_ctr_init : kind == CM ? (void *)api.mantis_ctr_init
                         : kind == P128 ? (void *)api.skinny128_parallel_ecb_init : kind == P64 ? (void *)api.skinny64_parallel_ecb_init : (void *)api.mantis_parallel_ecb_init;
                if (op.geti("failat")) skv_mon_fail_at(1);
                ret = (int)skv_tramp(fn, obj, garbage);
                skv_mon_fail_at(0);
            }
            *api.cpuid_hook = nullptr; *api.xcr0_hook = nullptr; g_cpu = nullptr;
            if (cpu.xgetbv_illegal) { res = where + "XGETBV executed on a CPU model without OSXSAVE (the instruction faults there)"; }
            else if (op.name == "probe.vec128") { if ((ret != 0) != want128) res = where + "_skinny_has_vec128() = " + std::to_string(ret) + ", expected " + std::to_string(want128); }
            else if (op.name == "probe.vec256") { if ((ret != 0) != want256) res = where + "_skinny_has_vec256() = " + std::to_string(ret) + ", expected " + std::to_string(want256) + " (garbage ECX " + std::to_string(cpu.garbage_ecx) + ")"; }
            else if (op.geti("failat") && ret == 0) { /* allocation failed and init said so: nothing was selected */ }
            else {
                if (ret != 1) res = where + "init returned " + std::to_string(ret);
                else {
                    int got, want; size_t psize = 0, wantp = 0;
                    if (kind_is_ctr(kind)) {
                        const void *vt = handle_vtable(kind, obj);
                        got = kind == C128 ? (vt == api.vt_s128_ctr_vec256 ? 256 : vt == api.vt_s128_ctr_vec128 ? 128 : 0)
                            : kind == C64 ? (vt == api.vt_s64_ctr_vec128 ? 128 : 0) : (vt == api.vt_m_ctr_vec128 ? 128 : 0);
                    } else {
                        psize = handle_parallel_size(kind, obj);
                        got = !handle_vtable(kind, obj) ? 0 : (kind == P128 && psize == 128 ? 256 : 128);
                    }
                    want = (kind == C128 || kind == P128) ? (want256 ? 256 : want128 ? 128 : 0) : (want128 ? 128 : 0);
                    if (kind_is_par(kind)) {
                        wantp = kind == P128 ? (want == 256 ? 128 : 64) : 64;
                        if (psize != wantp) res = where + "advertised parallel size " + std::to_string(psize) + ", expected " + std::to_string(wantp);
                    }
                    if (res.empty() && got != want) res = where + "selected back end " + std::to_string(got) + ", expected " + std::to_string(want);
                    // release
                    if (kind == C128) api.skinny128_ctr_cleanup((Skinny128CTR_t *)obj); else if (kind == C64) api.skinny64_ctr_cleanup((Skinny64CTR_t *)obj);
                    else if (kind == CM) api.mantis_ctr_cleanup((MantisCTR_t *)obj); else if (kind == P128) api.skinny128_parallel_ecb_cleanup((Skinny128ParallelECB_t *)obj);
                    else if (kind == P64) api.skinny64_parallel_ecb_cleanup((Skinny64ParallelECB_t *)obj); else api.mantis_parallel_ecb_cleanup((MantisParallelECB_t *)obj);
                }
            }
        }
        if (!res.empty()) return res + (modelled ? " [modelled CPU: sse2=" + std::to_string(sse2) + " avx2-usable=" + std::to_string(avx2) + "]" : " [real CPU]");
        if (!st.shrinking && !modelled) {
            st.count("real-cpu");
            bool nt = false;
            for (size_t i = first; i < p.size(); ++i) { const Bytes *g = p[i].getb("g"); if (g && ((*g)[0] | (*g)[1] | (*g)[2] | (*g)[3])) nt = true; }
            st.extra["calls"] += (double)(p.size() - first);
            st.case_done(ser(p), nt);
        }
        return "";
    }
};
int main(int argc, char **argv) { C13 h; return skv_main(argc, argv, h); }
