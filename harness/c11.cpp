// C11 — results are a function of API inputs only.
//  --mode vg    : inside memcheck, all inputs defined, caller-owned schedules and output buffers start
//                 undefined: no uninitialised-value report during a call; return value, outputs, the
//                 active schedule image and the public handle fields must be defined afterwards.
//  --mode paint : native; the same program executed with the stack below the call painted 0x00 / 0xFF /
//                 0x5A, the heap perturbed (M_PERTURB) and caller-owned structs pre-filled differently
//                 must give bit-identical transcripts.  With --digest the per-case transcript digests
//                 are written out so that the driver can compare separate processes (different ASLR).
#include <malloc.h>
#include "model.hpp"
#include "unigen.hpp"
#include "vg.hpp"
using namespace skv;

struct PaintHooks : ExecHooks {
    uint8_t pattern = 0;
    __attribute__((noinline)) static void paint(uint8_t v) {
        volatile uint8_t buf[48 * 1024];
        for (size_t i = 0; i < sizeof buf; i += 1) buf[i] = v;
        __asm__ __volatile__("" ::: "memory");
    }
    void call_pre(const Op &) override { paint(pattern); }
};

struct VgHooks11 : VgHooks {
    VgHooks11() : VgHooks(DEFINED) {}
    std::vector<bool> garbage_ok;   // per slot: the object may hold arbitrary bytes before its first call
    size_t next_slot = 0;
    void object(int kind, void *p, size_t n) override {
        // caller-owned schedules are plain uninitialised structs; a handle may hold anything before init, but
        // a handle that is used without init must be zeroed (documented), so those stay defined
        size_t i = next_slot++;
        if (kind_is_sched(kind) || (i < garbage_ok.size() && garbage_ok[i])) VALGRIND_MAKE_MEM_UNDEFINED(p, n);
    }
    void step_post(const Op &op, Rec &r, void *obj) override {
        if (!r.img.empty() && VALGRIND_CHECK_MEM_IS_DEFINED(r.img.data(), r.img.size()))
            r.err += "active part of the key schedule holds bytes that are not defined values;";
        if (obj && op.name.find(".init") != std::string::npos && r.ret == 1) {
            int kind = kind_of(op.name.substr(0, op.name.find('.')));
            // the documented fields (vtable, ctx, parallel_size) must hold defined values after a successful init; a reserved
            // member or padding that nothing ever reads is not a result and may stay as it was
#define SKV_F(T, f) VALGRIND_CHECK_MEM_IS_DEFINED(&((T *)obj)->f, sizeof(((T *)obj)->f))
            bool undef = false;
            switch (kind) {
            case C128: undef = SKV_F(Skinny128CTR_t, vtable) || SKV_F(Skinny128CTR_t, ctx); break;
            case C64: undef = SKV_F(Skinny64CTR_t, vtable) || SKV_F(Skinny64CTR_t, ctx); break;
            case CM: undef = SKV_F(MantisCTR_t, vtable) || SKV_F(MantisCTR_t, ctx); break;
            case P128: undef = SKV_F(Skinny128ParallelECB_t, vtable) || SKV_F(Skinny128ParallelECB_t, ctx) || SKV_F(Skinny128ParallelECB_t, parallel_size); break;
            case P64: undef = SKV_F(Skinny64ParallelECB_t, vtable) || SKV_F(Skinny64ParallelECB_t, ctx) || SKV_F(Skinny64ParallelECB_t, parallel_size); break;
            case PM: undef = SKV_F(MantisParallelECB_t, vtable) || SKV_F(MantisParallelECB_t, ctx) || SKV_F(MantisParallelECB_t, parallel_size); break;
            }
#undef SKV_F
            if (undef) r.err += "a documented handle field is not assigned by init;";
        }
        if (!r.img.empty()) VALGRIND_MAKE_MEM_DEFINED(r.img.data(), r.img.size());
    }
};

struct C11 : Harness {
    Api api = static_api();
    bool vg = false;
    void configure(const std::map<std::string, std::string> &kv) override { if (kv.count("mode")) vg = kv.at("mode") == "vg"; }
    std::string selftest() override {
        std::string s = ref::selftest();
        if (!s.empty()) return s;
        if (vg) {
            if (!VgHooks::under_valgrind()) return "not running under valgrind/memcheck";
            uint8_t x[4];
            VALGRIND_MAKE_MEM_UNDEFINED(x, 4);
            if (!VALGRIND_CHECK_MEM_IS_DEFINED(x, 4)) return "positive control: undefined bytes not recognised";
            VALGRIND_MAKE_MEM_DEFINED(x, 4);
        }
        return "";
    }
    rc::Gen<Program> gen() override {
        return rc::gen::exec([]() { return gen_union_program(true, 35); });
    }
    // slots whose first call is a (non-NULL-object) init: their prior content must not matter
    static std::vector<bool> init_first(const Program &p) {
        std::vector<bool> r; std::vector<bool> seen;
        for (auto &op : p) {
            if (op.name.rfind("new.", 0) == 0) { r.push_back(false); seen.push_back(false); continue; }
            long long s = op.geti("s", -1);
            if (s < 0 || (size_t)s >= r.size() || seen[(size_t)s]) continue;
            seen[(size_t)s] = true;
            r[(size_t)s] = op.name.size() > 5 && op.name.compare(op.name.size() - 5, 5, ".init") == 0;
        }
        return r;
    }
    static Program with_fill(const Program &p, int fill) {
        Program q = p;
        std::vector<bool> g = init_first(p);
        size_t i = 0;
        for (auto &op : q) if (op.name.rfind("new.", 0) == 0) {
            if (kind_is_sched(kind_of(op.name.substr(4))) || g[i]) op.set("fill", fill);
            ++i;
        }
        return q;
    }
    std::string run(const Program &p, Stats &st) override {
        int kind = kind_of(p[0].name.substr(4));
        std::vector<int> bes = kind_is_sched(kind) ? std::vector<int>{256} : backends_for(kind);
        uint64_t digest = 0;
        for (int be : bes) {
            if (vg) {
                VgHooks11 vh; vh.garbage_ok = init_first(p);
                ExecOptions eo; eo.hooks = &vh; eo.force_be = be;
                Exec ex(api, eo);
                Transcript t = ex.run(p);
                for (size_t i = 0; i < t.size(); ++i)
                    if (!t[i].err.empty()) return "op #" + std::to_string(i) + " [" + ser(p[i]).substr(0, 200) + "] (back end pin " + std::to_string(be) + "): " + t[i].err;
                for (auto &s : ex.slot_table()) if (s.mem) VgHooks::make_defined(s.mem, Exec::SLOT_BYTES);
            } else {
                Transcript ref;
                static const int pats[3] = {0x00, 0xFF, 0x5A};
                for (int k = 0; k < 3; ++k) {
                    PaintHooks ph; ph.pattern = (uint8_t)pats[k];
                    mallopt(M_PERTURB, k == 0 ? 0 : k == 1 ? 0xA5 : 0x3C);
                    ExecOptions eo; eo.hooks = &ph; eo.force_be = be;
                    Exec ex(api, eo);
                    Transcript t = ex.run(with_fill(p, pats[(k + 1) % 3]));
                    if (k == 0) { ref = t; digest ^= transcript_digest(t) * (uint64_t)(be + 3); }
                    else {
                        CmpOpts co; co.img = true; co.pub = true;
                        std::string d = cmp_transcripts(p, ref, t, co, "paint-00", k == 1 ? "paint-FF" : "paint-5A");
                        if (!d.empty()) { mallopt(M_PERTURB, 0); return "result depends on prior stack / heap / object contents (back end pin " + std::to_string(be) + "): " + d; }
                    }
                }
                mallopt(M_PERTURB, 0);
            }
        }
        if (!st.shrinking) {
            bool between = false, shortv = false, fresh = false, init = false;
            for (auto &op : p) {
                std::string fn = op.name.substr(op.name.find('.') + 1);
                if (op.name.rfind("new.", 0) == 0) continue;
                int k2 = kind_of(op.name.substr(0, op.name.find('.')));
                int bs = kind_bs(k2);
                bool mant = k2 == MK || k2 == CM || k2 == PM;
                if ((fn == "set_key" || fn == "set_tweaked_key") && !mant && !op.geti("inv") && op.geti("len") % bs) between = true;
                if ((fn == "set_tweak" || fn == "set_counter") && !op.geti("inv") && (op.geti("len") < bs || op.isnull("tweak") || op.isnull("ctr"))) shortv = true;
                if (fn == "init") init = true;
            }
            // a CTR stream without set_counter / a schedule without set_tweak uses the optional set-up's default
            fresh = init || kind_is_sched(kind);
            if (between) st.count("in-between-key-length");
            if (shortv) st.count("short-or-null-tweak-or-counter");
            if (init) st.count("init");
            st.count(std::string("kind/") + p[0].name.substr(4));
            st.last_digest = digest;
            st.case_done(ser(p), between || shortv || fresh);
        }
        return "";
    }
};
int main(int argc, char **argv) { C11 h; return skv_main(argc, argv, h); }
