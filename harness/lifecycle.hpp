// Shared by C15 / C16 / C17: executor hooks that consult the allocator monitor (mon_alloc.c).
#pragma once
#include "gens.hpp"
#include "model.hpp"

extern "C" {
void skv_mon_reset(void);
void skv_mon_fail_at(unsigned long k);
int skv_mon_live(void);
unsigned long skv_mon_requests(void);
unsigned long skv_mon_double(void);
unsigned long skv_mon_foreign(void);
unsigned long skv_mon_nonzero(void);
unsigned long skv_mon_frees(void);
unsigned long skv_mon_failed(void);
size_t skv_mon_nonzero_off(void);
size_t skv_mon_nonzero_bytes(void);
size_t skv_mon_last_free_size(void);
void skv_mon_align_mode(int m);
size_t skv_mon_block_nonzero(const void *inner, size_t *size, size_t *tail_nonzero, size_t tail);
}

namespace skv {

struct MonHooks : ExecHooks {
    // facts gathered over one run
    unsigned long cleanups_of_live = 0, rich_cleanups = 0;
    size_t max_nonzero_before = 0;
    std::vector<size_t> block_sizes;
    unsigned long seen_double = 0, seen_foreign = 0, seen_nonzero = 0, seen_failed = 0;
    bool check_live = true;

    void reset(int align_mode = 0) { held.clear(); live_before = 0; live_after.clear(); skv_mon_align_mode(align_mode); skv_mon_reset(); seen_double = seen_foreign = seen_nonzero = seen_failed = 0; cleanups_of_live = rich_cleanups = 0; max_nonzero_before = 0; block_sizes.clear(); }

    // blocks the library holds on behalf of each object: whatever it allocates during a call on object s is charged to s,
    // whatever it frees is credited.  How many blocks an object takes, and when it takes them, is the implementation's
    // business; that cleanup gives back all of them - and that nothing is held for an object that is not initialised - is
    // the property.
    std::map<long long, long> held;
    int live_before = 0;
    std::vector<int> live_after;     // number of blocks the library holds after each op of the run
    void call_pre(const Op &op) override {
        long long k = op.geti("failat", 0);
        if (k > 0) skv_mon_fail_at((unsigned long)k);
        live_before = skv_mon_live();
    }
    void call_post(const Op &, Rec &) override { skv_mon_fail_at(0); }

    // called by the harness *before* the executor runs a cleanup op is not possible from inside the executor,
    // so the snapshot is taken in step_pre via the generic hook below
    void step_post(const Op &op, Rec &r, void *obj) override {
        (void)obj;
        if (skv_mon_double() != seen_double) { r.err += "double-free;"; seen_double = skv_mon_double(); }
        if (skv_mon_foreign() != seen_foreign) { r.err += "free-of-pointer-the-library-did-not-allocate;"; seen_foreign = skv_mon_foreign(); }
        if (skv_mon_nonzero() != seen_nonzero) {
            r.err += "block-not-zero-at-free(size=" + std::to_string(skv_mon_last_free_size()) + ",first-nonzero-offset=" + std::to_string(skv_mon_nonzero_off()) +
                     ",nonzero-bytes=" + std::to_string(skv_mon_nonzero_bytes()) + ");";
            seen_nonzero = skv_mon_nonzero();
        }
        if (skv_mon_failed() != seen_failed) { r.pub += ";inj"; seen_failed = skv_mon_failed(); }
        live_after.push_back(skv_mon_live());
        if (check_live) {
            long long sl = op.geti("s", -1);
            long delta = (long)skv_mon_live() - (long)live_before;
            if (op.name.rfind("new.", 0) != 0) {
                if (sl >= 0) held[sl] += delta;
                else if (delta != 0) r.err += "a-call-on-a-NULL-object-changed-the-number-of-allocated-blocks;";
                std::string fn = op.name.substr(op.name.find('.') + 1);
                bool dead_after = fn == "cleanup" || (fn == "init" && r.ret != 1);
                if (sl >= 0 && held[sl] < 0) r.err += "more-blocks-released-than-were-allocated-on-behalf-of-this-object;";
                else if (sl >= 0 && dead_after && held[sl] != 0)
                    r.err += std::string(fn == "cleanup" ? "cleanup" : "failed-init") + "-left-" + std::to_string(held[sl]) + "-block(s)-allocated-on-behalf-of-this-object;";
                else if (r.live_slots == 0 && skv_mon_live() != 0)
                    r.err += "no-object-is-initialised-but-" + std::to_string(skv_mon_live()) + "-block(s)-are-still-allocated;";
            }
        }
    }
};

// snapshot of the private context just before a cleanup op (C17 non-triviality): run by the harness
// through a pre-pass: the executor calls input()/call_pre() before the library call, and for cleanup ops
// call_pre is where the handle still points at the live context.
struct MonHooks17 : MonHooks {
    Exec *ex = nullptr;
    void call_pre(const Op &op) override {
        MonHooks::call_pre(op);
        if (op.name.size() > 8 && op.name.compare(op.name.size() - 8, 8, ".cleanup") == 0 && ex) {
            long long s = op.geti("s", -1);
            auto &tab = ex->slot_table();
            if (s >= 0 && (size_t)s < tab.size() && tab[(size_t)s].live) {
                size_t size = 0, tail = 0;
                size_t nz = skv_mon_block_nonzero(handle_ctx(tab[(size_t)s].kind, tab[(size_t)s].mem), &size, &tail, 64);
                ++cleanups_of_live;
                if (nz > max_nonzero_before) max_nonzero_before = nz;
                if (size) block_sizes.push_back(size);
                if (nz >= 64 && tail > 0) ++rich_cleanups;
                else if (nz >= 64) ++rich_cleanups_notail;
            }
        }
    }
    unsigned long rich_cleanups_notail = 0;
};

}  // namespace skv
