// C16 — allocation failure during initialisation is reported cleanly (fault enumeration).
// For every init function x back end x allocation request it makes x prior content of the
// caller's object: fail that request.  Oracle: init returns 0, nothing leaked, and the object is
// inert: cleanup and every other call are safe, touch nothing the library did not allocate
// (planted canary memory intact, no foreign free) and report failure; a later init works.
#include "lifecycle.hpp"
using namespace skv;

struct C16 : Harness {
    Api api = static_api();
    alignas(64) uint8_t canary[4096];

    // prior: 0 zeros, 1 0xFF, 2 garbage byte, 3 stale image of a cleaned-up object, 4 planted pointers to canary memory,
    // 5 a live, keyed and used object (initialising it again is the caller's leak, but "whatever the object's memory
    //   contained before the call" still applies: after the failed init it must be inert, not the old object again)
    static void build(Program &p, int kind, int be, int failat, int prior, int fillbyte, const Bytes &key, const Bytes &data) {
        int bs = kind_bs(kind);
        bool ctr = kind_is_ctr(kind), mant = kind == CM || kind == PM;
        Op n = mkop(std::string("new.") + kname(kind));
        n.set("fill", prior == 0 ? 0 : prior == 1 ? 0xFF : prior == 2 ? fillbyte : 0);
        n.set("amode", fillbyte % 9);      // placement of the blocks handed to the library: natural / 16 mod 32 / 32-aligned
        if (prior == 4) n.set("plant", 1).set("fill", fillbyte);
        p.push_back(n);
        auto keyop = [&](bool inv) {
            Op k = mkop(opn(kind, "set_key")); k.set("s", 0);
            if (inv) k.set("inv", 1);
            k.set("key", Bytes(key.begin(), key.begin() + (mant ? 16 : bs))).set("len", mant ? 16 : bs);
            if (mant) k.set("rounds", 6);
            if (kind == PM) k.set("mode", 1);
            return k;
        };
        auto dataop = [&](bool inv) {
            Op e = mkop(opn(kind, ctr ? "encrypt" : kind == PM ? "crypt" : "enc")); e.set("s", 0);
            if (inv) e.set("inv", 1);
            // probes of the inert object come in every size class - "nothing to do" (0 bytes), a byte, a block, several
            // blocks: the answer is 0 for all of them; calls on the working object use four blocks
            size_t nbytes = 4 * (size_t)bs;
            if (inv) nbytes = ctr ? (size_t)*rc::gen::element(0, 0, 1, bs, 4 * bs, 7 * bs + 3) : (size_t)bs * (size_t)*rc::gen::element(0, 0, 1, 4, 7);
            Bytes d(data.begin(), data.begin() + nbytes);
            e.set("in", d);
            if (kind == PM) e.set("tweak", d);
            return e;
        };
        if (prior == 3 || prior == 5) {   // a previous life: complete (stale image left behind) or still going on
            p.push_back(mkop(opn(kind, "init")).set("s", 0).set("be", be));
            p.push_back(keyop(false)); p.push_back(dataop(false));
            if (prior == 3) p.push_back(mkop(opn(kind, "cleanup")).set("s", 0));
            else p[0].set("liveprior", 1);
        }
        p.push_back(mkop(opn(kind, "init")).set("s", 0).set("be", be).set("failat", failat).set("inv", 1));
        // every other function on the object left behind by the failed init
        p.push_back(keyop(true));
        if (ctr && !mant) { Op k = mkop(opn(kind, "set_tweaked_key")); k.set("s", 0).set("inv", 1).set("key", Bytes(key.begin(), key.begin() + bs)).set("len", bs); p.push_back(k); }
        if (ctr) {
            p.push_back(mkop(opn(kind, "set_tweak")).set("s", 0).set("inv", 1).set("tweak", Bytes(key.begin(), key.begin() + bs)).set("len", bs));
            p.push_back(mkop(opn(kind, "set_counter")).set("s", 0).set("inv", 1).set("ctr", Bytes(key.begin(), key.begin() + bs)).set("len", bs));
        }
        if (kind == PM) p.push_back(mkop("pm.swap").set("s", 0).set("inv", 1));
        p.push_back(dataop(true));
        if (kind == P128 || kind == P64) { Op d = dataop(true); d.name = opn(kind, "dec"); p.push_back(d); }
        p.push_back(mkop(opn(kind, "cleanup")).set("s", 0).set("inv", 1));
        p.push_back(mkop(opn(kind, "cleanup")).set("s", 0).set("inv", 1));
        p.push_back(dataop(true));
        // a later successful init works and the object behaves normally
        p.push_back(mkop(opn(kind, "init")).set("s", 0).set("be", be));
        p.push_back(keyop(false)); p.push_back(dataop(false));
        p.push_back(mkop(opn(kind, "cleanup")).set("s", 0));
    }

    rc::Gen<Program> gen() override {
        return rc::gen::exec([]() {
            Program p;
            int kind = *rc::gen::element((int)C128, (int)C64, (int)CM, (int)P128, (int)P64, (int)PM);
            auto bes = backends_for(kind);
            int be = *rc::gen::elementOf(bes);
            int prior = *irange(0, 5);
            int failat = *rc::gen::weightedOneOf<int>({{6, rc::gen::just(1)}, {3, rc::gen::just(2)}, {1, rc::gen::just(3)}});
            build(p, kind, be, failat, prior, *irange(1, 254), *gbytes(32), *gdata(128));
            return p;
        });
    }

    std::string run(const Program &p, Stats &st) override {
        MonHooks mh; mh.reset((int)p[0].geti("amode", 0));
        // the block of an object that is initialised again while live is orphaned by the caller, not leaked by the library
        int orphans = p[0].geti("liveprior") ? 1 : 0;
        if (orphans) mh.check_live = false;
        memset(canary, 0xAB, sizeof canary);
        ExecOptions eo; eo.hooks = &mh; eo.final_cleanup = false;
        Exec ex(api, eo);
        ex.planted_vtable = canary + 1024; ex.planted_ctx = canary + 2048;
        Transcript t = ex.run(p);
        // ... however many blocks that object held (one today; the number is the implementation's business)
        if (orphans) {
            orphans = 0;
            // (live_after has one entry per executed call; `new.` ops are not calls)
            size_t calls = 0;
            for (size_t i = 0; i < p.size(); ++i) {
                if (p[i].name.rfind("new.", 0) == 0) continue;
                if (p[i].geti("failat")) { orphans = calls ? mh.live_after[calls - 1] : 0; break; }
                ++calls;
            }
        }
        Model m;
        std::vector<MRec> exp = m.run(p);
        bool injected = false;
        for (size_t i = 0; i < p.size(); ++i) {
            const Op &op = p[i];
            std::string fn = op.name.substr(op.name.find('.') + 1);
            std::string where = "op #" + std::to_string(i) + " [" + ser(op).substr(0, 160) + "]: ";
            if (!t[i].err.empty()) return where + t[i].err;
            for (size_t k = 0; k < sizeof canary; ++k) if (canary[k] != 0xAB) return where + "memory the library did not allocate was written (planted canary damaged at offset " + std::to_string(k) + ")";
            if (fn == "init" && op.geti("failat")) {
                if (t[i].pub.find(";inj") == std::string::npos) {
                    // the init made fewer allocation requests than failat: nothing was injected, it must simply succeed
                    if (t[i].ret != 1) return where + "init failed although no allocation failure was injected";
                    st.count("failat-beyond-last-request");
                    // the rest of the canned program assumes a failed init: stop judging here
                    Exec::Slot &sl = ex.slot_table()[0]; (void)sl;
                    ex.finalize();
                    if (skv_mon_live() > orphans) return "leak";
                    if (!st.shrinking) st.case_done(ser(p), false);
                    return "";
                }
                injected = true;
                if (t[i].ret != 0) return where + "init returned " + std::to_string(t[i].ret) + " although its allocation failed";
                if (t[i].pub.find("c1") != std::string::npos && kind_is_par(kind_of(op.name.substr(0, op.name.find('.')))) ) return where + "parallel handle keeps a non-null ctx after a failed init";
                continue;
            }
            if (injected && op.geti("inv")) {
                if (t[i].ret != 0 && t[i].ret != RET_VOID) return where + "call on the object left by a failed init returned " + std::to_string(t[i].ret);
                if (t[i].has_out) for (auto v : t[i].out) if (v != (uint8_t)Exec::OUT_FILL) return where + "call on the object left by a failed init produced output";
            }
        }
        // the tail (successful re-init) must agree with the model; the model treats a failed init as "not live"
        // (records flagged inv are compared for ret only above)
        for (size_t i = 0; i < p.size(); ++i) {
            if (p[i].geti("inv") || exp[i].unspec) continue;
            if (t[i].ret != exp[i].ret || (exp[i].has_out && t[i].out != exp[i].out))
                return "op #" + std::to_string(i) + " [" + ser(p[i]).substr(0, 160) + "]: after a failed and a repeated init the object misbehaves: " + rec_str(t[i]).substr(0, 300);
        }
        {   // the init after the failure must be served by the same back end as the one before it (same cap)
            int first = -2;
            for (size_t i = 0; i < p.size(); ++i) {
                if (t[i].be < 0 || t[i].ret != 1) continue;
                if (first == -2) first = t[i].be;
                else if (first != t[i].be) return "op #" + std::to_string(i) + " [" + ser(p[i]).substr(0, 120) + "]: after a failed init the next init is served by back end " +
                                                  std::to_string(t[i].be) + " instead of " + std::to_string(first);
            }
        }
        ex.finalize();
        if (skv_mon_live() != orphans) return "leak: " + std::to_string(skv_mon_live()) + " block(s) live at the end (expected " + std::to_string(orphans) + ")";
        if (!st.shrinking) {
            int be = -1; for (auto &r : t) if (r.be >= 0) be = r.be;
            std::string site = p[0].name.substr(4) + "/be" + std::to_string(be);
            int prior = p[0].geti("plant") ? 4 : -1;
            st.count("site/" + site);
            st.count("block-placement-mode=" + std::to_string(p[0].geti("amode", 0)));
            if (p[0].geti("liveprior")) st.count("prior/live-object-initialised-again");
            else if (prior == 4) st.count("prior/planted-pointers");
            else if (p.size() > 2 && p[1].name.find(".init") != std::string::npos && !p[1].geti("failat")) st.count("prior/stale-image-of-cleaned-object");
            else st.count("prior/fill=" + std::string(p[0].geti("fill") == 0 ? "00" : p[0].geti("fill") == 255 ? "ff" : "garbage"));
            st.case_done(ser(p), injected);
        }
        return "";
    }
};
int main(int argc, char **argv) { C16 h; return skv_main(argc, argv, h); }
