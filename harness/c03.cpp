// C03 — decryption inverts encryption (and vice versa) through every entry point; Mantis mode
// switching gives the exact inverse, twice restores, once == keying afresh in the other mode
// and re-applying the tweak.  Round trips are library-vs-library (no model); the Mantis mode
// machine additionally runs against the API model and compares struct images with a freshly
// keyed schedule.
#include "gens.hpp"
#include "model.hpp"
using namespace skv;

struct C03 : Harness {
    Api api = static_api();

    rc::Gen<Program> gen() override {
        return rc::gen::exec([]() {
            Program p;
            int mode = *rc::gen::weightedOneOf<int>({{3, rc::gen::just(0)}, {3, rc::gen::just(1)}, {3, rc::gen::just(2)}});
            if (mode == 0) {            // (a) single block, every schedule kind
                int kind = *rc::gen::element((int)K128, (int)K64, (int)T128, (int)T64, (int)MK);
                int bs = kind_bs(kind);
                p.push_back(mkop(std::string("new.") + kname(kind)).set("fill", *rc::gen::element(0, 0xA5, 0xFF)));
                if (kind == MK) {
                    p.push_back(mkop("mk.set_key").set("s", 0).set("key", *gbytes(16)).set("len", 16).set("rounds", *irange(5, 8)).set("mode", *irange(0, 1)));
                    if (*chance(70)) p.push_back(mkop("mk.set_tweak").set("s", 0).set("tweak", *gbytes(8)).set("len", 8));
                } else if (kind == T128 || kind == T64) {
                    int len = *gkeylen(bs, 2, 10);
                    p.push_back(mkop(opn(kind, "set_tweaked_key")).set("s", 0).set("key", *gbytes(len)).set("len", len));
                    int nt = *irange(0, 2);
                    for (int i = 0; i < nt; ++i) { int tl = *irange(1, bs); p.push_back(mkop(opn(kind, "set_tweak")).set("s", 0).set("tweak", *gbytes(tl)).set("len", tl)); }
                } else {
                    int len = *gkeylen(bs, 3, 10);
                    p.push_back(mkop(opn(kind, "set_key")).set("s", 0).set("key", *gbytes(len)).set("len", len));
                }
                int nb = *irange(1, 4);
                for (int i = 0; i < nb; ++i) {
                    Op e = mkop(kind == MK ? "mk.crypt" : opn(kind, *chance(50) ? "enc" : "dec"));
                    e.set("s", 0).set("in", *gbytes(bs));
                    if (*chance(25)) e.set("ov", *irange(-(bs - 1), bs - 1)); else e.set("io", *goffset()).set("oo", *goffset());
                    p.push_back(e);
                    // tweak changes between the blocks: the inverse of an earlier block is also applied *later*, after
                    // the same tweak has been set again (see the "late inverse" in run())
                    if ((kind == T128 || kind == T64 || kind == MK) && *chance(50)) {
                        int tl = kind == MK ? 8 : *irange(1, bs);
                        Op t = mkop(opn(kind, "set_tweak")); t.set("s", 0);
                        if (*chance(15)) t.setnull("tweak"); else t.set("tweak", *gbytes(tl));
                        t.set("len", tl); p.push_back(t);
                    }
                }
            } else if (mode == 1) {     // (b) parallel round trips on every back end
                int kind = *rc::gen::element((int)P128, (int)P64, (int)PM);
                int bs = kind_bs(kind);
                p.push_back(mkop(std::string("new.") + kname(kind)));
                p.push_back(mkop(opn(kind, "init")).set("s", 0).set("be", *rc::gen::elementOf(backends_for(kind))));
                Op k = mkop(opn(kind, "set_key")); k.set("s", 0);
                if (kind == PM) k.set("key", *gbytes(16)).set("len", 16).set("rounds", *irange(5, 8)).set("mode", *irange(0, 1));
                else { int len = *gkeylen(bs, 3, 10); k.set("key", *gbytes(len)).set("len", len); }
                p.push_back(k);
                int calls = *irange(1, 2);
                for (int c = 0; c < calls; ++c) {
                    size_t n = (size_t)*rc::gen::weightedOneOf<int>({{8, irange(0, 29)}, {1, irange(30, 160)}}) * bs;
                    Op e = mkop(opn(kind, kind == PM ? "crypt" : (*chance(50) ? "enc" : "dec")));
                    e.set("s", 0).set("in", *gblocks(n, (size_t)bs));
                    if (kind == PM) e.set("tweak", *gblocks(n, 8));
                    if (*chance(30)) e.set("ip", 1).set("io", *goffset()); else e.set("io", *goffset()).set("oo", *goffset());
                    p.push_back(e);
                }
            } else {                    // (c) Mantis mode machine on a schedule or a parallel object
                bool par = *chance(35);
                int kind = par ? PM : MK;
                p.push_back(mkop(std::string("new.") + kname(kind)).set("fill", par ? 0 : *rc::gen::element(0, 0xA5, 0xFF)));
                if (par) p.push_back(mkop("pm.init").set("s", 0).set("be", *rc::gen::element(0, 128)));
                bool keyed = false;
                int n = *irange(3, 30);
                for (int i = 0; i < n; ++i) {
                    int w = keyed ? *irange(0, 11) : 0;
                    if (w == 0) {
                        p.push_back(mkop(opn(kind, "set_key")).set("s", 0).set("key", *gbytes(16)).set("len", 16).set("rounds", *irange(5, 8)).set("mode", *irange(0, 1)));
                        keyed = true;
                    } else if (w <= 2 && !par) {
                        Op t = mkop("mk.set_tweak"); t.set("s", 0);
                        if (*chance(20)) t.setnull("tweak"); else t.set("tweak", *gbytes(8));
                        t.set("len", 8); p.push_back(t);
                    } else if (w <= 5) p.push_back(mkop(opn(kind, "swap")).set("s", 0));
                    else if (par) { size_t nb = (size_t)*irange(1, 19) * 8; p.push_back(mkop("pm.crypt").set("s", 0).set("in", *gblocks(nb, 8)).set("tweak", *gblocks(nb, 8))); }
                    else if (w <= 8) p.push_back(mkop("mk.crypt").set("s", 0).set("in", *gbytes(8)));
                    else p.push_back(mkop("mk.crypt_tw").set("s", 0).set("in", *gbytes(8)).set("tweak", *gbytes(8)));
                }
            }
            return p;
        });
    }

    static bool is_data(const Op &op) { return op.has("in"); }

    std::string run(const Program &p, Stats &st) override {
        Exec ex(api);
        Transcript t = ex.run(p);
        for (size_t i = 0; i < t.size(); ++i) if (!t[i].err.empty()) return "op #" + std::to_string(i) + ": monitor: " + t[i].err;
        int kind = kind_of(p[0].name.substr(4));
        bool mant = kind == MK || kind == PM;
        // inverse program: same set-up, each data op replaced by its inverse applied to the first run's output.
        // Skinny: enc <-> dec.  Mantis: a swap_modes is inserted before and after every data op, so the same
        // object serves as its own inverse (this is the "switching turns it into the exact inverse" law, and
        // with the second swap "switching twice restores it").
        Program q; std::vector<long> qi(p.size(), -1);
        for (size_t i = 0; i < p.size(); ++i) {
            Op op = p[i];
            if (is_data(op) && t[i].ret != 0) {
                std::string fn = op.name.substr(op.name.find('.') + 1);
                op.set("in", t[i].out);
                if (mant) q.push_back(mkop(opn(kind, "swap")).set("s", 0));
                else op.name = opn(kind, fn == "enc" ? "dec" : "enc");
                qi[i] = (long)q.size();
                q.push_back(op);
                if (mant) q.push_back(mkop(opn(kind, "swap")).set("s", 0));
            } else q.push_back(op);
        }
        Exec ex2(api);
        Transcript t2 = ex2.run(q);
        for (size_t i = 0; i < p.size(); ++i) {
            if (qi[i] < 0) continue;
            const Bytes &orig = *p[i].getb("in");
            if (t2[(size_t)qi[i]].out != orig)
                return "op #" + std::to_string(i) + " [" + ser(p[i]).substr(0, 160) + "]: the inverse operation does not restore the original block(s): got " +
                       hex(t2[(size_t)qi[i]].out).substr(0, 64) + " want " + hex(orig).substr(0, 64);
        }
        // late inverse (caller-owned tweakable schedules): the whole history runs first, then for every earlier block the
        // tweak that was active at that point is set again and the inverse is applied - "under one key and tweak" must
        // not depend on which other tweaks the schedule has been through in between
        if (kind == T128 || kind == T64 || kind == MK) {
            Model m; Program q2 = p; std::vector<std::pair<size_t, size_t>> late;   // (index in p, index of inverse in q2)
            size_t last_key = 0;
            for (size_t i = 0; i < p.size(); ++i) { std::string fn = p[i].name.substr(p[i].name.find('.') + 1); if (fn == "set_key" || fn == "set_tweaked_key") last_key = i; }
            for (size_t i = 0; i < p.size(); ++i) {
                m.step1(p[i]);
                if (!is_data(p[i]) || i < last_key || p[i].name == "mk.crypt_tw" || m.objs.empty() || !m.objs[0].keyed) continue;
                const Model::Obj &o = m.objs[0];
                Op st = mkop(opn(kind, "set_tweak")); st.set("s", 0).set("tweak", o.tweak).set("len", (long long)o.tweak.size());
                q2.push_back(st);
                std::string fn = p[i].name.substr(p[i].name.find('.') + 1);
                Op inv = p[i]; inv.kv.clear(); inv.set("s", 0).set("in", t[i].out);
                if (kind == MK) {
                    // the mode may have been switched since: bring it to the opposite of the mode at op i with swap_modes
                    bool dec_then = o.dec;
                    q2.push_back(mkop("mk.setmode").set("s", 0).set("dec", dec_then ? 0 : 1));
                    inv.name = "mk.crypt";
                } else inv.name = opn(kind, fn == "enc" ? "dec" : "enc");
                late.emplace_back(i, q2.size());
                q2.push_back(inv);
            }
            if (!late.empty()) {
                // resolve the pseudo-op mk.setmode into swap_modes calls using the model's view of the mode
                Program q3; Model m3; std::vector<size_t> map3(q2.size(), 0);
                for (size_t i = 0; i < q2.size(); ++i) {
                    if (q2[i].name == "mk.setmode") {
                        bool want = q2[i].geti("dec") != 0;
                        if (!m3.objs.empty() && m3.objs[0].dec != want) { Op sw = mkop("mk.swap"); sw.set("s", 0); m3.step1(sw); q3.push_back(sw); }
                        map3[i] = q3.size();
                        continue;
                    }
                    m3.step1(q2[i]); map3[i] = q3.size(); q3.push_back(q2[i]);
                }
                Exec ex4(api);
                Transcript t4 = ex4.run(q3);
                for (auto &pr : late) {
                    const Bytes &orig = *p[pr.first].getb("in");
                    if (t4[map3[pr.second]].out != orig)
                        return "op #" + std::to_string(pr.first) + " [" + ser(p[pr.first]).substr(0, 160) + "]: after further tweak changes and setting the same tweak again, the inverse "
                               "operation no longer restores the block: got " + hex(t4[map3[pr.second]].out) + " want " + hex(orig);
                }
            }
        }
        // Mantis mode machine: model + image of a freshly keyed schedule
        bool swap_after_tweak = false, crypt_after = false;
        if (mant) {
            Model m;
            bool tw_changed = false, armed = false;
            for (size_t i = 0; i < p.size(); ++i) {
                MRec e = m.step1(p[i]);
                std::string where = "op #" + std::to_string(i) + " [" + ser(p[i]).substr(0, 160) + "]: ";
                if (!e.unspec) {
                    if (t[i].ret != e.ret) return where + "return value " + std::to_string(t[i].ret) + " (model " + std::to_string(e.ret) + ")";
                    if (e.has_out && t[i].out != e.out) return where + "output differs from the MANTIS model for the current mode: " + hex(t[i].out).substr(0, 64) + " vs " + hex(e.out).substr(0, 64);
                }
                std::string fn = p[i].name.substr(p[i].name.find('.') + 1);
                if (fn == "set_tweak") tw_changed = true;
                if (fn == "swap" && tw_changed) armed = true;
                if (armed && is_data(p[i])) { swap_after_tweak = true; crypt_after = true; }
                if (kind == MK && !t[i].img.empty() && m.objs[0].keyed) {
                    // image must equal a fresh set_key(k, r, current mode) + set_tweak(t)
                    const Model::Obj &o = m.objs[0];
                    Program f;
                    f.push_back(mkop("new.mk").set("fill", 0x5A));
                    f.push_back(mkop("mk.set_key").set("s", 0).set("key", o.key).set("len", 16).set("rounds", o.rounds).set("mode", o.dec ? MANTIS_DECRYPT : MANTIS_ENCRYPT));
                    f.push_back(mkop("mk.set_tweak").set("s", 0).set("tweak", o.tweak).set("len", 8));
                    Exec ex3(api);
                    Transcript t3 = ex3.run(f);
                    if (t3[2].img != t[i].img) return where + "schedule differs from one keyed afresh in the current mode with the tweak re-applied";
                }
            }
        }
        if (!st.shrinking) {
            bool nt = false;
            if (kind_is_par(kind)) {
                int be = t[1].be; size_t batch = be == 256 ? 8 : be == 128 ? (kind == P128 ? 4 : 8) : 1;
                for (auto &op : p) if (is_data(op)) { size_t nb = op.getb("in")->size() / kind_bs(kind); if (batch > 1 && nb > batch && nb % batch) nt = true; }
                st.count(std::string("parallel/") + kname(kind) + "/be" + std::to_string(be));
            } else if (kind == MK && p.size() > 2 && p[2].name != "mk.set_tweak" && p.size() > 6) st.count("mantis-mode-machine");
            else st.count(std::string("single/") + kname(kind));
            if (swap_after_tweak && crypt_after) { nt = true; st.count("swap-after-tweak-change-then-crypt"); }
            if (!kind_is_par(kind) && !mant) nt = true;   // single-block round trips: every random (key, block) is a non-trivial instance
            st.case_done(ser(p), nt);
        }
        return "";
    }
};
int main(int argc, char **argv) { C03 h; return skv_main(argc, argv, h); }
