// C10 — key lengths: the documented range is accepted and zero-padded, all others rejected
// and leave the existing schedule untouched; Mantis: only 16-byte keys and 5..8 rounds.
// Length dimension enumerated 0..3*bs+16 plus huge values, for every key-setting entry point.
#include "gens.hpp"
#include "model.hpp"
using namespace skv;

struct C10 : Harness {
    Api api = static_api();
    bool heap = false;
    void configure(const std::map<std::string, std::string> &kv) override { if (kv.count("heap")) heap = kv.at("heap") == "1"; }

    static Op probe(int kind, int bs) {
        if (kind_is_ctr(kind)) { Op c = mkop(opn(kind, "encrypt")); c.set("s", 0).set("in", Bytes((size_t)bs * 9 + 3, 0)); return c; }
        if (kind_is_par(kind)) { Op c = mkop(opn(kind, kind == PM ? "crypt" : "enc")); Bytes d((size_t)bs * 9, 0); for (size_t i = 0; i < d.size(); ++i) d[i] = (uint8_t)(i * 7); c.set("s", 0).set("in", d); if (kind == PM) c.set("tweak", d); return c; }
        Op c = mkop(kind == MK ? "mk.crypt" : opn(kind, "enc")); Bytes d(bs); for (int i = 0; i < bs; ++i) d[i] = (uint8_t)(0x11 * i + 3); c.set("s", 0).set("in", d); return c;
    }
    rc::Gen<Program> gen() override {
        return rc::gen::exec([]() {
            Program p;
            int kind = *rc::gen::element((int)K128, (int)K64, (int)T128, (int)T64, (int)C128, (int)C64, (int)P128, (int)P64, (int)MK, (int)CM, (int)PM);
            int bs = kind_bs(kind);
            bool mant = kind == MK || kind == CM || kind == PM;
            bool tkentry = kind == T128 || kind == T64 || ((kind == C128 || kind == C64) && *chance(50));
            const char *fn = tkentry ? "set_tweaked_key" : "set_key";
            p.push_back(mkop(std::string("new.") + kname(kind)).set("fill", kind_is_sched(kind) ? *rc::gen::element(0, 0xA5, 0xFF) : 0));
            if (!kind_is_sched(kind)) p.push_back(mkop(opn(kind, "init")).set("s", 0).set("be", *rc::gen::elementOf(backends_for(kind))));
            bool prior = *chance(60);
            auto setkey = [&](int len, int rounds, const Bytes &key, const char *f) {
                Op k = mkop(opn(kind, f)); k.set("s", 0).set("key", key).set("len", len);
                if (mant) { k.set("rounds", rounds); if (kind != CM) k.set("mode", 1); }
                return k;
            };
            if (prior) {
                int l0 = mant ? 16 : bs * *irange(1, tkentry ? 2 : 3);
                p.push_back(setkey(l0, 7, *gbytes(l0), fn));
                // a tweak in place before the call under test: a rejected call must leave it (and the schedule it is folded into) alone
                if (tkentry && *chance(70)) { int tl = *irange(1, bs); p.push_back(mkop(opn(kind, "set_tweak")).set("s", 0).set("tweak", *gbytes(tl)).set("len", tl)); }
                if (kind_is_ctr(kind)) p.push_back(mkop(opn(kind, "set_counter")).set("s", 0).set("ctr", *gbytes(bs)).set("len", bs));
                p.push_back(probe(kind, bs));
                if (kind_is_ctr(kind)) p.push_back(mkop(opn(kind, "set_counter")).set("s", 0).setnull("ctr").set("len", 0));
            }
            // the call under test
            int maxlen = mant ? 40 : 3 * bs + 16;
            int legal = mant ? 16 : *irange(bs, (tkentry ? 2 : 3) * bs);
            int len = *rc::gen::weightedOneOf<int>({{12, irange(0, maxlen)}, {mant ? 5 : 0, rc::gen::just(16)}, {2, ghuge(legal)}});
            int rounds = mant ? *rc::gen::weightedOneOf<int>({{5, irange(5, 8)}, {3, irange(0, 12)}, {1, irange(13, 80)}, {2, ghuge(*irange(5, 8))}}) : 0;
            size_t have = (size_t)std::min<long long>((unsigned)len, (long long)maxlen);
            Op k = setkey(len, rounds, *gbytes(have), fn);
            k.set("test", 1).set("ko", *goffset());
            p.push_back(k);
            bool valid_len = mant ? (len == 16 && rounds >= 5 && rounds <= 8) : ((unsigned)len >= (unsigned)bs && (unsigned)len <= (unsigned)(bs * (tkentry ? 2 : 3)));
            if (prior || valid_len) {
                if (tkentry && *chance(50)) { int tl = *irange(1, bs); p.push_back(mkop(opn(kind, "set_tweak")).set("s", 0).set("tweak", *gbytes(tl)).set("len", tl)); }
                if (kind_is_ctr(kind)) p.push_back(mkop(opn(kind, "set_counter")).set("s", 0).setnull("ctr").set("len", 0));
                p.push_back(probe(kind, bs));
            }
            return p;
        });
    }
    std::string run(const Program &p, Stats &st) override {
        ExecOptions eo; eo.heap_buffers = heap;
        Exec ex(api, eo);
        Transcript t = ex.run(p);
        Model m;
        std::string d = cmp_model(p, t, m.run(p), true);
        if (!d.empty()) return d;
        size_t ti = 0;
        for (size_t i = 0; i < p.size(); ++i) if (p[i].geti("test")) ti = i;
        const Op &k = p[ti];
        int kind = kind_of(k.name.substr(0, k.name.find('.')));
        int bs = kind_bs(kind);
        bool mant = kind == MK || kind == CM || kind == PM;
        unsigned len = (unsigned)k.geti("len");
        if (t[ti].ret == 0) {
            // rejected: caller-owned schedule image untouched
            if (ti > 0 && !t[ti].img.empty() && !t[ti - 1].img.empty()) {
                size_t j = ti - 1; while (j > 0 && t[j].img.empty()) --j;
                if (!t[j].img.empty() && t[j].img != t[ti].img) return "op #" + std::to_string(ti) + " [" + ser(k).substr(0, 160) + "]: rejected key length changed the schedule";
            }
        } else if (!mant) {
            // accepted: identical to the same bytes zero-padded to the next primary size (library vs library)
            Program q = p;
            Bytes key = *k.getb("key"); key.resize(len);
            size_t prim = ((size_t)len + bs - 1) / bs * bs;
            key.resize(prim, 0);
            q[ti].set("key", key).set("len", (long long)prim);
            Exec ex2(api, eo);
            Transcript t2 = ex2.run(q);
            for (size_t i = ti; i < p.size(); ++i)
                if (t[i].ret != t2[i].ret || t[i].out != t2[i].out || t[i].img != t2[i].img)
                    return "op #" + std::to_string(i) + " [" + ser(p[i]).substr(0, 160) + "]: key of length " + std::to_string(len) + " does not behave as the same bytes zero-padded to " + std::to_string(prim);
        }
        if (!st.shrinking) {
            std::string ep = k.name;
            bool inrange = t[ti].ret == 1;
            bool between = inrange && !mant && len % bs != 0;
            st.count(ep + (inrange ? "/accepted" : "/rejected"));
            if (len <= (unsigned)(mant ? 40 : 3 * bs + 16)) st.count(std::string(mant ? "mantis" : bs == 16 ? "skinny128" : "skinny64") + "/len=" + std::to_string(len));
            else st.count("huge-length");
            if (mant) st.count("mantis/rounds=" + std::to_string((long long)k.geti("rounds")));
            st.case_done(ser(p), between || !inrange);
        }
        return "";
    }
};
int main(int argc, char **argv) { C10 h; return skv_main(argc, argv, h); }
