// Program generators shared by several checks.
#pragma once
#include "exec.hpp"
#include "skv.hpp"

namespace skv {

static inline const char *kname(int kind) { return kKindNames[kind]; }
static inline std::string opn(int kind, const char *fn) { return std::string(kKindNames[kind]) + "." + fn; }

// back ends that exist for a kind (whether the CPU can run them is decided at run time by the cap hook)
static inline std::vector<int> backends_for(int kind) {
    if (kind == C128 || kind == P128) return {0, 128, 256};
    return {0, 128};
}

static inline rc::Gen<int> goffset() {   // buffer offset from a 64-byte aligned base
    return rc::gen::weightedOneOf<int>({{3, rc::gen::just(0)}, {5, irange(0, 63)}, {1, rc::gen::element(1, 3, 7, 15, 17, 31, 33, 63)}});
}

// key length for plain skinny keys: mostly primary sizes, sometimes in between
static inline rc::Gen<int> gkeylen(int bs, int maxblocks, int inbetween_percent) {
    auto primary = rc::gen::map(irange(1, maxblocks), [bs](int z) { return z * bs; });
    if (inbetween_percent <= 0) return primary;
    return rc::gen::weightedOneOf<int>({{100 - inbetween_percent, primary}, {inbetween_percent, irange(bs, bs * maxblocks)}});
}

// huge unsigned argument values: classic boundaries, and values whose LOW part is a perfectly legal value `low`
// while some high bit(s) are set - what a truncating or overflowing range check (8/16-bit narrowing, size*8, shift
// by the count) would let through
static inline rc::Gen<int> ghuge(int low) {
    auto classic = rc::gen::element(0x7fffffff, (int)0x80000000, -1, 0x10000 + low, 0x100 + low, (int)0x80000000 + low);
    auto highbit = rc::gen::map(irange(8, 31), [low](int b) { return (int)((1u << b) + (unsigned)low); });
    auto multi = rc::gen::map(rc::gen::arbitrary<uint32_t>(), [low](uint32_t r) { return (int)((r & 0xffffff00u) | 0x100u) + low; });
    auto neg = rc::gen::map(irange(1, 64), [](int k) { return -k; });
    return rc::gen::weightedOneOf<int>({{3, classic}, {4, highbit}, {2, multi}, {1, neg}});
}

// chunk sizes for CTR streams
static inline rc::Gen<int> gchunk(int bs) {
    return rc::gen::weightedOneOf<int>({
        {1, rc::gen::just(0)},
        {3, irange(1, 3)},
        {3, rc::gen::element(bs - 1, bs, bs + 1)},
        {4, rc::gen::element(63, 64, 65, 127, 128, 129, 4 * bs - 1, 4 * bs + 1, 8 * bs - 1, 8 * bs, 8 * bs + 1)},
        {4, irange(0, 40)},
        {3, irange(0, 300)},
        {1, irange(300, 700)},
    });
}

struct CtrFlavor { int kind; bool tweaked; };

// key set-up ops for a CTR object (key, and for tweaked flavours 0-2 tweak changes)
static inline void gen_ctr_keying(Program &p, int kind, bool tweaked, int slot, int inbetween_percent, bool allow_tweak_changes = true) {
    int bs = kind_bs(kind);
    if (kind == CM) {
        Op k = mkop(opn(kind, "set_key"));
        k.set("s", slot).set("key", *gbytes(16)).set("len", 16).set("rounds", *irange(5, 8)).set("ko", *goffset());
        p.push_back(k);
        if (allow_tweak_changes) {
            int nt = *irange(0, 2);
            for (int i = 0; i < nt; ++i) {
                Op t = mkop(opn(kind, "set_tweak"));
                t.set("s", slot);
                if (*chance(15)) t.setnull("tweak"); else t.set("tweak", *gbytes(8));
                t.set("len", 8).set("to", *goffset());
                p.push_back(t);
            }
        }
        return;
    }
    if (!tweaked) {
        int len = *gkeylen(bs, 3, inbetween_percent);
        Op k = mkop(opn(kind, "set_key"));
        k.set("s", slot).set("key", *gbytes(len)).set("len", len).set("ko", *goffset());
        p.push_back(k);
    } else {
        int len = *gkeylen(bs, 2, inbetween_percent);
        Op k = mkop(opn(kind, "set_tweaked_key"));
        k.set("s", slot).set("key", *gbytes(len)).set("len", len).set("ko", *goffset());
        p.push_back(k);
        if (allow_tweak_changes) {
            int nt = *irange(0, 2);
            for (int i = 0; i < nt; ++i) {
                Op t = mkop(opn(kind, "set_tweak"));
                int tl = *rc::gen::weightedOneOf<int>({{3, rc::gen::just(bs)}, {2, irange(1, bs)}});
                t.set("s", slot);
                if (*chance(15)) t.setnull("tweak"); else t.set("tweak", *gbytes(tl));
                t.set("len", tl).set("to", *goffset());
                p.push_back(t);
            }
        }
    }
}

static inline Op gen_set_counter(int kind, int slot) {
    int bs = kind_bs(kind);
    Op c = mkop(opn(kind, "set_counter"));
    c.set("s", slot);
    int mode = *rc::gen::weightedOneOf<int>({{6, rc::gen::just(0)}, {3, rc::gen::just(1)}, {1, rc::gen::just(2)}});
    if (mode == 0) { c.set("ctr", *gcounter(bs)).set("len", bs); }
    else if (mode == 1) { int l = *irange(0, bs); c.set("ctr", *gcounter(l)).set("len", l); }
    else { c.setnull("ctr").set("len", *irange(0, bs)); }
    c.set("co", *goffset());
    return c;
}

// a storm of setter calls with no data call in between: 255 / 256 / 257 / 512 explicit calls alternating between two
// values (each one really changes the state), or one call repeated 256 .. 65537 times (rep=N).  Anything that counts
// changes in a narrow type, or defers work to the next data call, sees its threshold here.
static inline void gen_storm(Program &p, int kind, int slot, bool tweaked, int max_rep = 65537) {
    int bs = kind_bs(kind);
    bool mant = kind == CM || kind == MK || kind == PM;
    int which = *irange(0, 2);   // 0 tweak, 1 key, 2 counter
    bool ctr = kind == C128 || kind == C64 || kind == CM;
    if (!ctr && kind != MK && kind != T128 && kind != T64) which = 1;        // parallel objects and plain schedules: only the key can change
    if (which == 2 && !ctr) which = 0;
    if (which == 0 && !(tweaked || mant)) which = 1;
    auto mk = [&](const Bytes &v) {
        Op o;
        if (which == 0) { o = mkop(opn(kind, "set_tweak")); o.set("s", slot).set("tweak", v).set("len", (long long)v.size()); }
        else if (which == 1) {
            o = mkop(opn(kind, (tweaked && !mant) ? "set_tweaked_key" : "set_key")); o.set("s", slot).set("key", v).set("len", (long long)v.size());
            if (mant) { o.set("rounds", 7); if (kind == PM || kind == MK) o.set("mode", 1); }
        } else { o = mkop(opn(kind, "set_counter")); o.set("s", slot).set("ctr", v).set("len", (long long)v.size()); }
        return o;
    };
    size_t n = which == 1 ? (mant ? 16 : (size_t)bs) : (mant && which == 0 ? 8 : (size_t)bs);
    Bytes a = *gbytes(n), b = *gbytes(n);
    if (*chance(50)) {
        int cnt = *rc::gen::element(255, 256, 257, 512);
        for (int i = 0; i < cnt; ++i) p.push_back(mk(i & 1 ? b : a));
    } else {
        Op o = mk(a); o.set("rep", std::min(max_rep, *rc::gen::element(256, 256, 512, 512, 1024, 65536, 65537)));
        p.push_back(o);
        if (*chance(50)) p.push_back(mk(b));
    }
}

static inline Op gen_ctr_chunk(int kind, int slot) {
    int bs = kind_bs(kind);
    int n = *gchunk(bs);
    Op e = mkop(opn(kind, "encrypt"));
    e.set("s", slot).set("in", *gdata(n));
    if (*chance(30)) e.set("ip", 1).set("io", *goffset());
    else e.set("io", *goffset()).set("oo", *goffset());
    return e;
}

}  // namespace skv

// ============================================================================ API histories
// A generator of call histories over CTR / parallel-ECB objects that keeps an abstract
// state per slot so that it can stay inside (or deliberately step outside) the documented
// contract.  Ops that are *invalid by the contract* carry inv=1: they must return 0 and
// change nothing.
namespace skv {

struct HistOpts {
    bool invalid = false;        // inject invalid calls (inv=1)
    bool midstream = true;       // key / tweak change in mid-stream without set_counter
    bool lifecycle = false;      // cleanup, repeated cleanup, use after cleanup, re-init
    bool unkeyed_data = false;   // data through an initialised but un-keyed object (unspecified: differential only)
    bool loose_tweak = false;    // set_tweak also on a plain-keyed or un-keyed CTR object: accepted by the API, result unspecified by
                                 // the documentation but still required to be deterministic and back-end independent (no model)
    bool allocfail = false;      // some init calls run with their first allocation request failing (needs the allocator monitor)
    bool storms = true;          // rare storms of 255..65537 consecutive setter calls (gen_storm)
    int max_rep = 65537;         // (harnesses that run under valgrind keep the repeat counts small)
    int inbetween = 10;          // percent of key lengths between primary sizes
    int max_chunk_class = 2;     // 0: tiny chunks only, 2: full gchunk distribution
};

struct SlotState { int kind = -1; int be = 256; bool live = false, keyed = false, tweaked = false, ever = false, zeroed = true; };

struct HistGen {
    HistOpts o;
    Program p;
    std::vector<SlotState> ss;
    // values already used in this history: re-submitting the *same* key / tweak / counter is a legal call
    // that a caching or "unchanged value" fast path would get wrong
    std::vector<Bytes> keypool, tweakpool, ctrpool;
    Bytes reuse_or(std::vector<Bytes> &pool, size_t n, int percent, bool counter = false) {
        if (!pool.empty() && *chance(percent)) {
            Bytes b = *rc::gen::elementOf(pool);
            if (b.size() > n) b.resize(n);          // a prefix of an earlier value is just as interesting
            else if (b.size() < n) b.resize(n, 0);
            return b;
        }
        // a value of another class of this history (the tweak that is also the key's first bytes, the counter that equals the tweak):
        // legal, and what an "equal, so nothing to do" shortcut between two different arguments needs
        if (n > 0 && *chance(6)) {
            std::vector<const Bytes *> all;
            for (auto *pl : {&keypool, &tweakpool, &ctrpool}) if (pl != &pool) for (const Bytes &x : *pl) if (!x.empty()) all.push_back(&x);
            if (!all.empty()) {
                Bytes b = **rc::gen::elementOf(all);
                b.resize(n, 0);
                pool.push_back(b);
                return b;
            }
        }
        Bytes b = counter ? *gcounter(n) : *gbytes(n);
        pool.push_back(b);
        return b;
    }

    int add_slot(int kind, int be, int fill = 0) {
        p.push_back(mkop(std::string("new.") + kname(kind)).set("fill", fill));
        SlotState s; s.kind = kind; s.be = be; s.zeroed = fill == 0;   // only a zeroed handle may be used before init
        ss.push_back(s);
        return (int)ss.size() - 1;
    }
    Op base(int i, const char *fn, bool inv = false) {
        Op op = mkop(opn(ss[i].kind, fn));
        op.set("s", i);
        if (inv) op.set("inv", 1);
        return op;
    }
    void init(int i) {
        SlotState &s = ss[i];
        if (o.allocfail && *chance(12)) {
            // the init's allocation fails: it must return 0 and leave an inert object ("failed-to-initialise" state)
            // (not marked inv: unlike an invalid call it does write the object - it makes it inert - and it is part of
            //  the twin history too)
            p.push_back(base(i, "init").set("be", s.be).set("failat", 1));
            s.live = false; s.keyed = false; s.ever = true;
            return;
        }
        p.push_back(base(i, "init").set("be", s.be));
        s.live = true; s.keyed = false; s.tweaked = false; s.ever = true;
    }
    void cleanup(int i) {
        SlotState &s = ss[i];
        p.push_back(base(i, "cleanup"));
        s.live = false; s.keyed = false;
    }
    // ---- valid key / tweak / counter ops
    void key(int i) {
        SlotState &s = ss[i];
        int bs = kind_bs(s.kind);
        bool inv = !s.live;
        if (s.kind == CM || s.kind == PM) {
            Op k = base(i, "set_key", inv);
            k.set("key", reuse_or(keypool, 16, 25)).set("len", 16).set("rounds", *irange(5, 8)).set("ko", *goffset());
            if (s.kind == PM) k.set("mode", *irange(0, 1));
            p.push_back(k);
            if (!inv) { s.keyed = true; s.tweaked = true; }
            return;
        }
        bool tk = kind_is_ctr(s.kind) && *chance(40);
        int len = *gkeylen(bs, tk ? 2 : 3, o.inbetween);
        Op k = base(i, tk ? "set_tweaked_key" : "set_key", inv);
        k.set("key", reuse_or(keypool, (size_t)len, 25)).set("len", len).set("ko", *goffset());
        p.push_back(k);
        if (!inv) { s.keyed = true; s.tweaked = tk; }
    }
    void tweak(int i) {
        SlotState &s = ss[i];
        int bs = kind_bs(s.kind);
        bool inv = !s.live;
        int tl = s.kind == CM ? 8 : *rc::gen::weightedOneOf<int>({{3, rc::gen::just(bs)}, {2, irange(1, bs)}});
        Op t = base(i, "set_tweak", inv);
        if (*chance(15)) t.setnull("tweak"); else t.set("tweak", reuse_or(tweakpool, (size_t)tl, 25));
        t.set("len", tl).set("to", *goffset());
        p.push_back(t);
    }
    void counter(int i) {
        SlotState &s = ss[i];
        Op c = gen_set_counter(s.kind, i);
        if (!s.live) c.set("inv", 1);
        p.push_back(c);
    }
    void data(int i) {
        SlotState &s = ss[i];
        int bs = kind_bs(s.kind);
        bool inv = !s.live;
        if (kind_is_ctr(s.kind)) {
            Op e = gen_ctr_chunk(s.kind, i);
            if (inv) e.set("inv", 1);
            p.push_back(e);
        } else {
            int nblk = *rc::gen::weightedOneOf<int>({{1, rc::gen::just(0)}, {4, irange(1, 9)}, {3, irange(0, 20)}, {1, irange(16, 40)}, {1, irange(41, 200)}});
            size_t n = (size_t)nblk * bs;
            const char *fn = s.kind == PM ? "crypt" : (*chance(50) ? "enc" : "dec");
            Op e = base(i, fn, inv);
            e.set("in", *gblocks(n, (size_t)bs));
            if (s.kind == PM) e.set("tweak", *gblocks(n, 8)).set("to", *goffset());
            if (*chance(30)) e.set("ip", 1).set("io", *goffset()); else e.set("io", *goffset()).set("oo", *goffset());
            p.push_back(e);
        }
    }
    void swap(int i) { p.push_back(base(i, "swap", !ss[i].live)); }

    // ---- one invalid call on slot i (any state)
    void invalid(int i) {
        SlotState &s = ss[i];
        int bs = kind_bs(s.kind);
        bool ctr = kind_is_ctr(s.kind);
        bool mant = s.kind == CM || s.kind == PM;
        int w = *irange(0, ctr ? 7 : 3);
        // huge values: boundaries, and a legal-looking low part (a key / tweak / counter length or a round count) under high bits
        int huge = *ghuge(*rc::gen::element(bs, 2 * bs, 16, 6, 8, bs - 1));
        if (w == 0) {           // bad key length
            Op k = base(i, (ctr && !mant && *chance(40)) ? "set_tweaked_key" : "set_key", true);
            bool tk = k.name.find("tweaked") != std::string::npos;
            int maxb = tk ? 2 : 3;
            int len = mant ? *rc::gen::element(0, 8, 15, 17, 32, huge) : *rc::gen::element(0, 1, bs - 1, maxb * bs + 1, maxb * bs + bs, huge);
            size_t have = (size_t)std::min<long long>((unsigned)len, (long long)3 * bs + 16);
            // (an invalid call may well carry the very key that is active: a cache keyed on the bytes must not short-cut validation)
            k.set("key", reuse_or(keypool, have, 40)).set("len", len);
            if (mant) { k.set("rounds", *irange(5, 8)); if (s.kind == PM) k.set("mode", *irange(0, 1)); }
            p.push_back(k);
        } else if (w == 1) {    // NULL key
            // (every key-setting entry point, every legal length: the NULL test must not depend on either)
            bool tk = ctr && !mant && *chance(45);
            Op k = base(i, tk ? "set_tweaked_key" : "set_key", true);
            k.setnull("key").set("len", mant ? 16 : bs * *irange(1, tk ? 2 : 3));
            if (mant) { k.set("rounds", *irange(5, 8)); if (s.kind == PM) k.set("mode", *irange(0, 1)); }
            p.push_back(k);
        } else if (w == 2 && mant) {   // bad rounds
            Op k = base(i, "set_key", true);
            k.set("key", reuse_or(keypool, 16, 40)).set("len", 16).set("rounds", *rc::gen::element(0, 1, 4, 9, 16, huge));
            if (s.kind == PM) k.set("mode", 1);
            p.push_back(k);
        } else if (w == 2 || w == 3) {
            if (ctr) {            // NULL object
                const char *fns[] = {"set_counter", "encrypt", "set_key", "init", "cleanup", "set_tweak", "set_tweaked_key"};
                const char *fn = fns[*irange(0, mant ? 5 : 6)];
                Op x = mkop(opn(s.kind, fn)); x.set("s", -1).set("inv", 1);
                if (!strcmp(fn, "set_counter")) x.set("ctr", *gbytes(bs)).set("len", bs);
                else if (!strcmp(fn, "encrypt")) x.set("in", *gdata(*irange(0, 40)));
                else if (!strcmp(fn, "set_key") || !strcmp(fn, "set_tweaked_key")) { x.set("key", *gbytes(mant ? 16 : bs)).set("len", mant ? 16 : bs); if (mant) x.set("rounds", 7); }
                else if (!strcmp(fn, "set_tweak")) x.set("tweak", *gbytes(bs)).set("len", bs);
                p.push_back(x);
            } else {
                int which = *irange(0, 4);
                if (which == 4) {      // NULL object, key-setting entry point
                    Op x = mkop(opn(s.kind, "set_key")); x.set("s", -1).set("inv", 1);
                    x.set("key", *gbytes(mant ? 16 : bs)).set("len", mant ? 16 : bs); if (mant) x.set("rounds", 7).set("mode", *irange(0, 1));
                    p.push_back(x);
                } else if (which == 0) {      // ragged size
                    // ragged byte counts, below and above the vector batch (64 / 128 bytes)
                    int n = *rc::gen::weightedOneOf<int>({{2, irange(1, 5 * bs)}, {3, irange(1, 24 * bs)}, {1, rc::gen::element(63, 65, 127, 129, 257)}});
                    if (n % bs == 0) n += 1 + *irange(0, bs - 2);
                    const char *fn = s.kind == PM ? "crypt" : (*chance(50) ? "enc" : "dec");
                    Op e = base(i, fn, true);
                    e.set("in", *gdata(n));
                    if (s.kind == PM) e.set("tweak", *gdata(n));
                    if (*chance(30)) e.set("ip", 1);
                    p.push_back(e);
                } else {               // NULL object
                    const char *fns[] = {"set_key", "init", "cleanup", "enc"};
                    const char *fn = fns[which];
                    if (s.kind == PM && which == 3) fn = "crypt";
                    Op x = mkop(opn(s.kind, fn)); x.set("s", -1).set("inv", 1);
                    if (which == 0) { x.set("key", *gbytes(mant ? 16 : bs)).set("len", mant ? 16 : bs); if (mant) x.set("rounds", 7).set("mode", 1); }
                    if (which == 3) { x.set("in", *gdata(2 * bs)); if (s.kind == PM) x.set("tweak", *gdata(2 * bs)); }
                    p.push_back(x);
                }
            }
        } else if (w == 4) {    // bad tweak length
            Op t = base(i, "set_tweak", true);
            int len = mant ? *rc::gen::element(0, 1, 4, 7, 9, 16, huge) : *rc::gen::element(0, bs + 1, 2 * bs, huge);
            // (a NULL tweak does not make an out-of-range length acceptable)
            if (*chance(25)) t.setnull("tweak");
            else t.set("tweak", reuse_or(tweakpool, (size_t)std::min<long long>((unsigned)len, (long long)2 * bs), 40));
            t.set("len", len);
            p.push_back(t);
        } else if (w == 5) {    // bad counter length
            Op c = base(i, "set_counter", true);
            int len = *rc::gen::element(bs + 1, bs + 2, 2 * bs, huge);
            if (*chance(20)) c.setnull("ctr"); else c.set("ctr", *gbytes((size_t)std::min<long long>((unsigned)len, (long long)2 * bs)));
            c.set("len", len);
            p.push_back(c);
        } else {                // NULL data pointers
            Op e = base(i, "encrypt", true);
            int n = *rc::gen::weightedOneOf<int>({{1, rc::gen::just(0)}, {3, irange(1, 100)}});
            int which = *irange(0, 2);
            if (which == 0) e.setnull("in").set("n", n);
            else if (which == 1) e.set("in", *gdata(n)).set("onull", 1);
            else e.setnull("in").set("n", n).set("onull", 1);
            p.push_back(e);
        }
    }

    // ---- one step on slot i according to its state
    void step(int i) {
        SlotState &s = ss[i];
        bool ctr = kind_is_ctr(s.kind);
        // (calls on a handle holding arbitrary bytes that was never initialised are caller misuse: not generated)
        if (o.invalid && (s.ever || s.zeroed) && *chance(18)) { invalid(i); return; }
        if (!s.live) {
            if (o.lifecycle && s.ever && *chance(45)) {
                // use after cleanup / repeated cleanup: all must be harmless and return 0
                int w = *irange(0, 4);
                if (w == 0) cleanup(i); else if (w == 1) key(i); else if (w == 2) data(i); else if (w == 3 && ctr) counter(i); else if (ctr) tweak(i);
                else if (s.kind == PM && *chance(50)) swap(i); else data(i);
                return;
            }
            if (o.lifecycle && !s.ever && s.zeroed && *chance(25)) {   // never-initialised zeroed object
                int w = *irange(0, 4);
                if (w == 0) cleanup(i); else if (w == 1) key(i); else if (w == 2) data(i); else if (w == 3 && ctr) counter(i); else if (ctr) tweak(i);
                else if (s.kind == PM) swap(i); else data(i);
                return;
            }
            init(i);
            return;
        }
        if (!s.keyed) {
            if (o.loose_tweak && ctr && s.kind != CM && *chance(10)) { tweak(i); return; }
            if (o.unkeyed_data && *chance(15)) { if (ctr && *chance(40)) counter(i); else data(i); return; }
            if (ctr && *chance(25)) { counter(i); return; }
            key(i);
            return;
        }
        if (o.storms && *chance(1) && *chance(10)) { gen_storm(p, s.kind, i, s.tweaked, o.max_rep); if (ctr && !o.midstream) counter(i); return; }
        int w = *irange(0, 99);
        if (w < 50) data(i);
        else if (w < 65) { if (ctr) counter(i); else data(i); }
        else if (w < 75) {      // re-key
            key(i);
            if (ctr && !o.midstream) counter(i);
        } else if (w < 85) {
            if (ctr && (s.tweaked || o.loose_tweak)) { tweak(i); if (!o.midstream) counter(i); }
            else if (s.kind == PM) swap(i);
            else data(i);
        } else if (w < 92 && o.lifecycle) cleanup(i);
        else data(i);
    }
};

}  // namespace skv
