// Program generators shared by several checks.
#pragma once
#include "exec.hpp"
#include "skv.hpp"

namespace skv {

static inline const char *kname(int kind) { return kKindNames[kind]; }
static inline std::string opn(int kind, const char *fn) { return std::string(kKindNames[kind]) + "." + fn; }

// back ends that exist for a kind (whether the CPU can run them is decided at run time by the cap hook)
static inline std::vector<int> backends_for(int kind) {
    if (kind == C128 || kind == P128) return {0, 128, 256};
    return {0, 128};
}

static inline rc::Gen<int> goffset() {   // buffer offset from a 64-byte aligned base
    return rc::gen::weightedOneOf<int>({{3, rc::gen::just(0)}, {5, irange(0, 63)}, {1, rc::gen::element(1, 3, 7, 15, 17, 31, 33, 63)}});
}

// key length for plain skinny keys: mostly primary sizes, sometimes in between
static inline rc::Gen<int> gkeylen(int bs, int maxblocks, int inbetween_percent) {
    auto primary = rc::gen::map(irange(1, maxblocks), [bs](int z) { return z * bs; });
    if (inbetween_percent <= 0) return primary;
    return rc::gen::weightedOneOf<int>({{100 - inbetween_percent, primary}, {inbetween_percent, irange(bs, bs * maxblocks)}});
}

// chunk sizes for CTR streams
static inline rc::Gen<int> gchunk(int bs) {
    return rc::gen::weightedOneOf<int>({
        {1, rc::gen::just(0)},
        {3, irange(1, 3)},
        {3, rc::gen::element(bs - 1, bs, bs + 1)},
        {4, rc::gen::element(63, 64, 65, 127, 128, 129, 4 * bs - 1, 4 * bs + 1, 8 * bs - 1, 8 * bs, 8 * bs + 1)},
        {4, irange(0, 40)},
        {3, irange(0, 300)},
        {1, irange(300, 700)},
    });
}

struct CtrFlavor { int kind; bool tweaked; };

// key set-up ops for a CTR object (key, and for tweaked flavours 0-2 tweak changes)
static inline void gen_ctr_keying(Program &p, int kind, bool tweaked, int slot, int inbetween_percent, bool allow_tweak_changes = true) {
    int bs = kind_bs(kind);
    if (kind == CM) {
        Op k = mkop(opn(kind, "set_key"));
        k.set("s", slot).set("key", *gbytes(16)).set("len", 16).set("rounds", *irange(5, 8)).set("ko", *goffset());
        p.push_back(k);
        if (allow_tweak_changes) {
            int nt = *irange(0, 2);
            for (int i = 0; i < nt; ++i) {
                Op t = mkop(opn(kind, "set_tweak"));
                t.set("s", slot);
                if (*chance(15)) t.setnull("tweak"); else t.set("tweak", *gbytes(8));
                t.set("len", 8).set("to", *goffset());
                p.push_back(t);
            }
        }
        return;
    }
    if (!tweaked) {
        int len = *gkeylen(bs, 3, inbetween_percent);
        Op k = mkop(opn(kind, "set_key"));
        k.set("s", slot).set("key", *gbytes(len)).set("len", len).set("ko", *goffset());
        p.push_back(k);
    } else {
        int len = *gkeylen(bs, 2, inbetween_percent);
        Op k = mkop(opn(kind, "set_tweaked_key"));
        k.set("s", slot).set("key", *gbytes(len)).set("len", len).set("ko", *goffset());
        p.push_back(k);
        if (allow_tweak_changes) {
            int nt = *irange(0, 2);
            for (int i = 0; i < nt; ++i) {
                Op t = mkop(opn(kind, "set_tweak"));
                int tl = *rc::gen::weightedOneOf<int>({{3, rc::gen::just(bs)}, {2, irange(1, bs)}});
                t.set("s", slot);
                if (*chance(15)) t.setnull("tweak"); else t.set("tweak", *gbytes(tl));
                t.set("len", tl).set("to", *goffset());
                p.push_back(t);
            }
        }
    }
}

static inline Op gen_set_counter(int kind, int slot) {
    int bs = kind_bs(kind);
    Op c = mkop(opn(kind, "set_counter"));
    c.set("s", slot);
    int mode = *rc::gen::weightedOneOf<int>({{6, rc::gen::just(0)}, {3, rc::gen::just(1)}, {1, rc::gen::just(2)}});
    if (mode == 0) { c.set("ctr", *gcounter(bs)).set("len", bs); }
    else if (mode == 1) { int l = *irange(0, bs); c.set("ctr", *gcounter(l)).set("len", l); }
    else { c.setnull("ctr").set("len", *irange(0, bs)); }
    c.set("co", *goffset());
    return c;
}

static inline Op gen_ctr_chunk(int kind, int slot) {
    int bs = kind_bs(kind);
    int n = *gchunk(bs);
    Op e = mkop(opn(kind, "encrypt"));
    e.set("s", slot).set("in", *gdata(n));
    if (*chance(30)) e.set("ip", 1).set("io", *goffset());
    else e.set("io", *goffset()).set("oo", *goffset());
    return e;
}

}  // namespace skv
