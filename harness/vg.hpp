// memcheck as a per-case monitor (C08, C09, C11).  The harness runs *inside* valgrind and uses
// client requests so that it decides, per library call, whether the monitor fired.
#pragma once
#include <valgrind/memcheck.h>
#include "exec.hpp"

namespace skv {

struct VgHooks : ExecHooks {
    enum Mode { TAINT, EXTENTS, DEFINED } mode;
    explicit VgHooks(Mode m) : mode(m) {}
    struct Buf { void *p; size_t n; };
    std::vector<Buf> ins, outs, regs;
    unsigned long mark = 0;
    unsigned long errors_in_calls = 0;
    bool secret_counter = true;

    static bool under_valgrind() { return RUNNING_ON_VALGRIND != 0; }

    void region(void *base, size_t len) override {
        regs.push_back(Buf{base, len});
        if (mode == EXTENTS) VALGRIND_MAKE_MEM_NOACCESS(base, len);
    }
    void input(int role, void *p, size_t n) override {
        ins.push_back(Buf{p, n});
        if (mode == EXTENTS) VALGRIND_MAKE_MEM_DEFINED(p, n);
        if (mode == TAINT && n) { (void)role; VALGRIND_MAKE_MEM_UNDEFINED(p, n); }
    }
    void output_pre(void *p, size_t n) override {
        outs.push_back(Buf{p, n});
        // a pure output window is addressable but undefined; a window that also holds an input
        // (in place, or the 3-block window of an overlapping single-block call) stays defined
        if (!n) return;
        if (aliased(p, n)) { if (mode == EXTENTS) VALGRIND_MAKE_MEM_DEFINED(p, n); }
        else if (mode == EXTENTS || mode == DEFINED) VALGRIND_MAKE_MEM_UNDEFINED(p, n);
    }
    bool aliased(void *p, size_t n) const {
        for (auto &i : ins) if ((uint8_t *)i.p >= (uint8_t *)p && (uint8_t *)i.p < (uint8_t *)p + n) return true;
        return false;
    }
    void call_pre(const Op &) override { mark = VALGRIND_COUNT_ERRORS; }
    void call_post(const Op &op, Rec &r) override {
        unsigned long now = VALGRIND_COUNT_ERRORS;
        if (now != mark) {
            errors_in_calls += now - mark;
            r.err += mode == TAINT ? "memcheck: branch or address depends on secret data (" : mode == EXTENTS ? "memcheck: access outside the caller's buffers (" : "memcheck: use of uninitialised memory (";
            r.err += std::to_string(now - mark) + " report(s) during the call);";
        }
        if (r.ret != RET_VOID) {
            if (VALGRIND_CHECK_MEM_IS_DEFINED(&r.ret, sizeof r.ret)) r.err += mode == TAINT ? "return value depends on secret data;" : "return value is not a defined value;";
            VALGRIND_MAKE_MEM_DEFINED(&r.ret, sizeof r.ret);
        }
        bool ok = r.ret == 1 || r.ret == RET_VOID;
        for (auto &x : outs)
            if ((mode == EXTENTS || mode == DEFINED) && ok && x.n && !aliased(x.p, x.n) && VALGRIND_CHECK_MEM_IS_DEFINED(x.p, x.n))
                r.err += "output buffer holds bytes that are not defined values after a successful call;";
        (void)op;
        // reopen everything for the harness' own checks
        for (auto &g : regs) VALGRIND_MAKE_MEM_DEFINED_IF_ADDRESSABLE(g.p, g.n);
        if (mode == EXTENTS) for (auto &g : regs) VALGRIND_MAKE_MEM_DEFINED(g.p, g.n);
        if (mode == TAINT) { for (auto &i : ins) VALGRIND_MAKE_MEM_DEFINED(i.p, i.n); for (auto &x : outs) VALGRIND_MAKE_MEM_DEFINED(x.p, x.n); }
        ins.clear(); outs.clear(); regs.clear();
    }
    // definedness of the real output range (called by the harness, which knows the exact range)
    static bool defined(const void *p, size_t n) { return n == 0 || VALGRIND_CHECK_MEM_IS_DEFINED(p, n) == 0; }
    static void make_defined(void *p, size_t n) { if (n) VALGRIND_MAKE_MEM_DEFINED(p, n); }
    static unsigned long errors() { return VALGRIND_COUNT_ERRORS; }
};

}  // namespace skv
