// C01 — SKINNY-64/128 single-block encryption/decryption conform to the specification.
// (key, block, variant, direction) through skinnyN_set_key + skinnyN_ecb_encrypt/decrypt
// versus the table-driven specification model.
#include "gens.hpp"
#include "model.hpp"
using namespace skv;

struct C01 : Harness {
    Api api = static_api();
    rc::Gen<Program> gen() override {
        return rc::gen::exec([]() {
            Program p;
            int kind = *rc::gen::element((int)K128, (int)K64);
            int bs = kind_bs(kind);
            // one to three schedules per case; later keys are sometimes derived from earlier ones (same bytes, same
            // prefix with a different tail, one bit flipped) so that a schedule computed from the wrong key material
            // - a stale cache, a truncated comparison - shows inside a single, replayable case
            int nkeys = *rc::gen::weightedOneOf<int>({{5, rc::gen::just(1)}, {3, rc::gen::just(2)}, {1, rc::gen::just(3)}});
            std::vector<Bytes> keys;
            for (int k = 0; k < nkeys; ++k) {
                int z = *irange(1, 3);
                Bytes key = *gbytes((size_t)bs * z);
                if (!keys.empty() && *chance(60)) {
                    key = *rc::gen::elementOf(keys);
                    int how = *irange(0, 3);
                    if (how == 0) { size_t keep = (size_t)*irange(1, (int)key.size() - 1); Bytes t = *gbytes(key.size() - keep); for (size_t i = keep; i < key.size(); ++i) key[i] = t[i - keep]; }
                    else if (how == 1) { int bit = *irange(0, (int)key.size() * 8 - 1); key[(size_t)bit / 8] ^= (uint8_t)(1 << (bit % 8)); }
                    else if (how == 2) { size_t nz = (size_t)bs * (size_t)*irange(1, 3); key.resize(nz, (uint8_t)*irange(0, 255)); }
                }
                // tweakey words that coincide (TK2 == TK1, TK3 == TK2): "equal, so nothing to do" between two different words
                if (key.size() > (size_t)bs && *chance(12)) {
                    size_t from = (size_t)bs * (size_t)*irange(0, (int)(key.size() / bs) - 2);
                    for (size_t i = 0; i < (size_t)bs; ++i) key[from + bs + i] = key[from + i];
                }
                keys.push_back(key);
                p.push_back(mkop(std::string("new.") + kname(kind)).set("fill", *rc::gen::element(0, 0xA5, 0xFF)));
                p.push_back(mkop(opn(kind, "set_key")).set("s", k).set("key", key).set("len", (long long)key.size()).set("ko", *goffset()));
                int nb = *irange(1, 3);
                for (int i = 0; i < nb; ++i) {
                    Op e = mkop(opn(kind, *chance(50) ? "dec" : "enc"));
                    Bytes blk = *gbytes(bs);
                    if (*chance(8)) { size_t from = (size_t)bs * (size_t)*irange(0, (int)(key.size() / bs) - 1); blk.assign(key.begin() + from, key.begin() + from + bs); }   // block == a tweakey word
                    e.set("s", *irange(0, k)).set("in", blk);
                    if (*chance(25)) e.set("ov", *irange(-(bs - 1), bs - 1)).set("io", *goffset());
                    else e.set("io", *goffset()).set("oo", *goffset());
                    p.push_back(e);
                }
            }
            return p;
        });
    }
    std::string run(const Program &p, Stats &st) override {
        Exec ex(api);
        Transcript t = ex.run(p);
        Model m;
        std::string d = cmp_model(p, t, m.run(p));
        if (!d.empty()) return d;
        if (!st.shrinking) {
            const Bytes *key = p[1].getb("key");
            int nk = 0; for (auto &op : p) if (op.name.find("set_key") != std::string::npos) ++nk;
            if (nk > 1) st.count("several-related-keys-in-one-case");
            bool zero = true;
            for (auto v : *key) zero = zero && v == 0;
            bool kat = false;
            static const char *katkeys[6] = {"f5269826fc681238", "9eb93640d088da6376a39d1c8bea71e1", "ed00c85b120d68618753e24bfd908f60b2dbb41b422dfcd0",
                                             "4f55cfb0520cac52fd92c15f37073e93", "009cec81605d4ac1d2ae9e3085d7a1f31ac123ebfc00fddcf01046ceeddfcab3",
                                             "df889548cfc7ea52d296339301797449ab588a34a47f1ab2dfe9c8293fbea9a5ab1afac2611012cd8cef952618c3ebe8"};
            for (auto k : katkeys) kat = kat || hex(*key) == k;
            int enc = 0, dec = 0;
            for (auto &op : p) { if (op.name.find(".enc") != std::string::npos) ++enc; if (op.name.find(".dec") != std::string::npos) ++dec; }
            std::string v = p[0].name.substr(4) + "-" + std::to_string(key->size() * 8);
            st.count("variant/" + v + "/enc", enc); st.count("variant/" + v + "/dec", dec);
            bool hi = false; for (auto b : *key) hi = hi || (b & 0x80);
            if (hi) st.count("key-with-high-bit-bytes");
            st.extra["blocks"] += enc + dec;
            st.case_done(ser(p), !zero && !kat);
        }
        return "";
    }
};
int main(int argc, char **argv) { C01 h; return skv_main(argc, argv, h); }
