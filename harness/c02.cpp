// C02 — MANTIS-5..8 conformance: (key, tweak, block, rounds, mode, tweak path) versus the
// specification model; stored tweak == per-call tweak; fresh schedule uses the zero tweak.
#include "gens.hpp"
#include "model.hpp"
using namespace skv;

struct C02 : Harness {
    Api api = static_api();
    rc::Gen<Program> gen() override {
        return rc::gen::exec([]() {
            Program p;
            p.push_back(mkop("new.mk").set("fill", *rc::gen::element(0, 0xA5, 0xFF)));
            Bytes key;
            // one or two keyings of the same schedule: "a freshly keyed schedule uses the all-zero tweak" also after a tweak
            // was stored under the previous key (same or another round count, same or another key)
            int epochs = *chance(35) ? 2 : 1, rounds0 = *irange(5, 8);
            for (int epoch = 0; epoch < epochs; ++epoch) {
            if (epoch == 0 || !*chance(30)) key = *gbytes(16);
            if (*chance(8)) for (int i = 0; i < 8; ++i) key[8 + i] = key[i];      // k1 == k0
            int rounds = (epoch == 0 || *chance(65)) ? rounds0 : *irange(5, 8);
            p.push_back(mkop("mk.set_key").set("s", 0).set("key", key).set("len", 16).set("rounds", rounds).set("mode", *irange(0, 1)).set("ko", *goffset()));
            // coinciding arguments (tweak == k0 / k1, block == tweak, block == k0): legal inputs an "equal, so skip" shortcut needs
            auto related = [&key](const Bytes &other) {
                int w = *irange(0, 2);
                if (w == 0) return Bytes(key.begin(), key.begin() + 8);
                if (w == 1) return Bytes(key.begin() + 8, key.end());
                return other;
            };
            int path = (epochs == 2 && epoch == 0 && *chance(70)) ? 1 : *irange(0, 3);   // 0 never set, 1 set_tweak, 2 set_tweak(NULL) after a non-zero one, 3 per-call only
            Bytes tw(8, 0);
            if (path == 1 || path == 2) {
                tw = *gbytes(8);
                if (*chance(8)) tw = related(tw);
                p.push_back(mkop("mk.set_tweak").set("s", 0).set("tweak", tw).set("len", 8).set("to", *goffset()));
                if (path == 2) { p.push_back(mkop("mk.set_tweak").set("s", 0).setnull("tweak").set("len", 8)); tw.assign(8, 0); }
            }
            int nb = *irange(1, 3);
            for (int i = 0; i < nb; ++i) {
                Bytes in = *gbytes(8);
                if (*chance(8)) in = related(tw);
                Op c = mkop("mk.crypt"); c.set("s", 0).set("in", in).set("io", *goffset()).set("oo", *goffset());
                p.push_back(c);
                // the same block with the stored tweak passed explicitly must give the same result
                Op d = mkop("mk.crypt_tw"); d.set("s", 0).set("in", in).set("tweak", tw).set("to", *goffset());
                if (*chance(25)) d.set("ov", *irange(-7, 7)).set("io", *goffset()); else d.set("io", *goffset()).set("oo", *goffset());
                p.push_back(d);
                if (path == 3 || *chance(30)) {
                    Op e = mkop("mk.crypt_tw"); e.set("s", 0).set("in", *gbytes(8)).set("tweak", *gbytes(8)).set("io", *goffset()).set("oo", *goffset()).set("to", *goffset());
                    p.push_back(e);
                }
            }
            }
            return p;
        });
    }
    std::string run(const Program &p, Stats &st) override {
        Exec ex(api);
        Transcript t = ex.run(p);
        Model m;
        std::string d = cmp_model(p, t, m.run(p));
        if (!d.empty()) return d;
        // direct law: crypt(stored t) == crypt_tweaked(t) (independent of the model)
        for (size_t i = 0; i + 1 < p.size(); ++i)
            if (p[i].name == "mk.crypt" && p[i + 1].name == "mk.crypt_tw" && *p[i].getb("in") == *p[i + 1].getb("in") && t[i].out != t[i + 1].out)
                return "op #" + std::to_string(i) + ": stored tweak and per-call tweak give different results";
        if (!st.shrinking) {
            bool nz = false, percall = false; int blocks = 0;
            for (auto &op : p) {
                if (op.name == "mk.set_tweak" || op.name == "mk.crypt_tw") { const Bytes *b = op.getb("tweak"); if (b) for (auto v : *b) nz = nz || v; }
                if (op.name == "mk.crypt_tw") percall = true;
                if (op.name == "mk.crypt" || op.name == "mk.crypt_tw") ++blocks;
            }
            bool kat = hex(*p[1].getb("key")) == "92f09952c625e3e9d7a060f714c0292b";
            st.count(std::string("rounds") + std::to_string(p[1].geti("rounds")) + (p[1].geti("mode") ? "/enc" : "/dec"), blocks);
            bool null_tw = false; for (auto &op : p) if (op.name == "mk.set_tweak" && op.isnull("tweak")) null_tw = true;
            if (null_tw) st.count("null-tweak-after-nonzero");
            {   // re-keyed while a non-zero tweak was stored, and then processed with the stored tweak before any new set_tweak
                bool stored_nz = false, armed = false, hit = false; int keyings = 0;
                for (auto &op : p) {
                    if (op.name == "mk.set_tweak") { stored_nz = false; const Bytes *b = op.getb("tweak"); if (b) for (auto v : *b) stored_nz = stored_nz || v; armed = false; }
                    if (op.name == "mk.set_key") { ++keyings; armed = stored_nz; stored_nz = false; }
                    if (op.name == "mk.crypt" && armed) hit = true;
                }
                if (keyings > 1) st.count("re-keyed");
                if (hit) st.count("re-keyed-over-nonzero-tweak-then-stored-tweak-crypt");
            }
            if (p[1].getb("key")->at(0) & 0x80) st.count("k0-msb-set");
            (void)percall;
            st.extra["blocks"] += blocks;
            st.case_done(ser(p), nz && !kat);
        }
        return "";
    }
};
int main(int argc, char **argv) { C02 h; return skv_main(argc, argv, h); }
