// C08 cross-check that mirrors the statement literally: the same *public* program is executed twice
// under `valgrind --tool=lackey --trace-mem=yes` with two different sets of secret values; the sequence
// of instruction addresses and of data addresses between the begin/end markers around every library
// call must be identical.  This binary is the interpreter: c08trace PROGRAM SECRET-SEED
#include "exec.hpp"
using namespace skv;

extern "C" {
__attribute__((noinline)) void skv_trace_begin(void) { __asm__ __volatile__("" ::: "memory"); }
__attribute__((noinline)) void skv_trace_end(void) { __asm__ __volatile__("" ::: "memory"); }
}
struct TraceHooks : ExecHooks {
    void call_pre(const Op &) override { skv_trace_begin(); }
    void call_post(const Op &, Rec &) override { skv_trace_end(); }
};
int main(int argc, char **argv) {
    if (argc < 3) return 2;
    Program p = parse(read_file(argv[1]));
    if (p.empty()) return 2;
    long long seed = atoll(argv[2]);
    uint64_t x = (uint64_t)seed * 0x9e3779b97f4a7c15ULL + 0x1234567;
    // replace every secret value (key, tweak, counter, data, tweak array) by bytes of the same length:
    // seed 0 -> all 0x00, seed 9 -> all 0xff (the extremes make carries, zero tests and high bits differ), else pseudo-random
    for (auto &op : p) for (auto &kv : op.kv) if (kv.second.kind == Val::BYTES)
        for (auto &b : kv.second.b) { x ^= x << 13; x ^= x >> 7; x ^= x << 17; b = seed == 0 ? 0x00 : seed == 9 ? 0xff : (uint8_t)(x >> 29); }
    printf("markers %lx %lx\n", (unsigned long)(uintptr_t)&skv_trace_begin, (unsigned long)(uintptr_t)&skv_trace_end);
    fflush(stdout);
    Api api = static_api();
    TraceHooks th; ExecOptions eo; eo.hooks = &th;
    Exec ex(api, eo);
    Transcript t = ex.run(p);
    unsigned acc = 0; for (auto &r : t) acc += (unsigned)r.ret;
    return acc == 0xffffffffu ? 1 : 0;
}
