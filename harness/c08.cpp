// C08 — constant time: no branch or address depends on key, tweak, data or counter.
// Generated *public-parameter* programs run inside memcheck with every secret buffer (key,
// tweak, counter, data, Mantis tweak arrays) marked undefined before each call; schedules,
// CTR contexts and outputs inherit the taint bit-precisely.  Oracle: memcheck reports nothing
// ("conditional jump depends on uninitialised value" / "use of uninitialised value" as an
// address) during any library call.  One clean run speaks for all secret values of that program.
#include "gens.hpp"
#include "vg.hpp"
using namespace skv;

static volatile uint8_t g_sink;
static const uint8_t g_table[256] = {1, 2, 3};
__attribute__((noinline)) static void leaky_lookup(const uint8_t *secret) { g_sink = g_table[secret[0]]; }
__attribute__((noinline)) static void leaky_branch(const uint8_t *secret) { if (secret[0] & 1) g_sink = 7; else g_sink = 9; }

struct C08 : Harness {
    Api api = static_api();
    bool dumponly = false;    // only generate (used to dump a corpus of public programs for the trace-diff cross-check)
    void configure(const std::map<std::string, std::string> &kv) override { if (kv.count("dumponly")) dumponly = kv.at("dumponly") == "1"; }

    std::string selftest() override {
        if (!VgHooks::under_valgrind()) return "not running under valgrind/memcheck";
        // positive controls: both kinds of leak must be flagged by the monitor
        uint8_t secret[8] = {3, 1, 4, 1, 5, 9, 2, 6};
        VALGRIND_MAKE_MEM_UNDEFINED(secret, sizeof secret);
        unsigned long a = VALGRIND_COUNT_ERRORS;
        leaky_lookup(secret);
        unsigned long b = VALGRIND_COUNT_ERRORS;
        leaky_branch(secret);
        unsigned long c = VALGRIND_COUNT_ERRORS;
        VALGRIND_MAKE_MEM_DEFINED(secret, sizeof secret);
        if (b == a) return "positive control: secret-indexed table look-up was not reported";
        if (c == b) return "positive control: secret-dependent branch was not reported";
        // negative control: a clean computation on tainted data must not be reported
        uint8_t x[8]; memcpy(x, secret, 8);
        VALGRIND_MAKE_MEM_UNDEFINED(x, 8);
        unsigned long d = VALGRIND_COUNT_ERRORS;
        uint8_t acc = 0; for (int i = 0; i < 8; ++i) acc ^= (uint8_t)(x[i] << 1);
        g_sink = 0; (void)acc;
        if (VALGRIND_COUNT_ERRORS != d) return "negative control: straight-line code on tainted data was reported";
        return "";
    }

    rc::Gen<Program> gen() override {
        return rc::gen::exec([]() {
            int w = *irange(0, 9);
            if (w <= 2) {
                // caller-owned schedules: key / tweak set-up and single blocks
                Program p;
                int kind = *rc::gen::element((int)K128, (int)K64, (int)T128, (int)T64, (int)MK);
                int bs = kind_bs(kind);
                p.push_back(mkop(std::string("new.") + kname(kind)));
                int rounds = *irange(1, 3);
                for (int r = 0; r < rounds; ++r) {
                    if (kind == MK) {
                        p.push_back(mkop("mk.set_key").set("s", 0).set("key", *gbytes(16)).set("len", 16).set("rounds", *irange(5, 8)).set("mode", *irange(0, 1)).set("ko", *goffset()));
                        if (*chance(60)) p.push_back(mkop("mk.set_tweak").set("s", 0).set("tweak", *gbytes(8)).set("len", 8));
                        if (*chance(30)) p.push_back(mkop("mk.swap").set("s", 0));
                        p.push_back(mkop("mk.crypt").set("s", 0).set("in", *gbytes(8)).set("io", *goffset()).set("oo", *goffset()));
                        p.push_back(mkop("mk.crypt_tw").set("s", 0).set("in", *gbytes(8)).set("tweak", *gbytes(8)));
                    } else if (kind == T128 || kind == T64) {
                        int len = *gkeylen(bs, 2, 25);
                        p.push_back(mkop(opn(kind, "set_tweaked_key")).set("s", 0).set("key", *gbytes(len)).set("len", len).set("ko", *goffset()));
                        int nt = *irange(0, 2);
                        for (int i = 0; i < nt; ++i) { int tl = *irange(1, bs); Op t = mkop(opn(kind, "set_tweak")); t.set("s", 0); if (*chance(15)) t.setnull("tweak"); else t.set("tweak", *gbytes(tl)); t.set("len", tl); p.push_back(t); }
                        p.push_back(mkop(opn(kind, "enc")).set("s", 0).set("in", *gbytes(bs)));
                        p.push_back(mkop(opn(kind, "dec")).set("s", 0).set("in", *gbytes(bs)).set("io", *goffset()).set("oo", *goffset()));
                    } else {
                        int len = *gkeylen(bs, 3, 25);
                        p.push_back(mkop(opn(kind, "set_key")).set("s", 0).set("key", *gbytes(len)).set("len", len).set("ko", *goffset()));
                        p.push_back(mkop(opn(kind, "enc")).set("s", 0).set("in", *gbytes(bs)).set("io", *goffset()).set("oo", *goffset()));
                        p.push_back(mkop(opn(kind, "dec")).set("s", 0).set("in", *gbytes(bs)));
                    }
                }
                return p;
            }
            HistGen g;
            g.o.invalid = false; g.o.lifecycle = false; g.o.midstream = true; g.o.inbetween = 25; g.o.loose_tweak = true; g.o.max_rep = 300;
            int kind = *rc::gen::element((int)C128, (int)C128, (int)C64, (int)CM, (int)P128, (int)P64, (int)PM);
            g.add_slot(kind, *rc::gen::elementOf(backends_for(kind)));
            int n = *irange(3, 16);
            for (int i = 0; i < n; ++i) g.step(0);
            g.cleanup(0);
            return g.p;
        });
    }

    std::string run(const Program &p, Stats &st) override {
        if (dumponly) { st.case_done(ser(p), false); return ""; }
        VgHooks vh(VgHooks::TAINT);
        ExecOptions eo; eo.hooks = &vh;
        bool data_call = false; int be = -1;
        std::string res;
        {
            Exec ex(api, eo);
            Transcript t = ex.run(p);
            for (size_t i = 0; i < t.size(); ++i) {
                if (t[i].err.find("memcheck") != std::string::npos || t[i].err.find("secret") != std::string::npos) {
                    res = "op #" + std::to_string(i) + " [" + ser(p[i]).substr(0, 200) + "]: " + t[i].err; break;
                }
                if (t[i].be >= 0) be = t[i].be;
                if (p[i].has("in") && (t[i].ret == 1 || t[i].ret == RET_VOID) && p[i].getb("in") && p[i].getb("in")->size() >= (size_t)kind_bs(kind_of(p[i].name.substr(0, p[i].name.find('.'))))) data_call = true;
            }
            // un-poison caller-owned objects before they are released
            for (auto &s : ex.slot_table()) if (s.mem) VgHooks::make_defined(s.mem, Exec::SLOT_BYTES);
        }
        if (!res.empty()) return res;
        if (!st.shrinking) {
            st.count(std::string("kind/") + p[0].name.substr(4) + (be >= 0 ? "/be" + std::to_string(be) : ""));
            st.extra["library_calls_monitored"] += (double)p.size() - 1;
            // the public program without the secret values is what makes a case distinct
            std::string pub;
            for (auto &op : p) { pub += op.name; for (auto &kv : op.kv) { pub += ' '; pub += kv.first; pub += '='; if (kv.second.kind == Val::INT) pub += std::to_string(kv.second.i); else if (kv.second.kind == Val::NUL) pub += "NULL"; else pub += "#" + std::to_string(kv.second.b.size()); } pub += '\n'; }
            st.case_done(pub, data_call);
        }
        return "";
    }
};
int main(int argc, char **argv) { C08 h; return skv_main(argc, argv, h); }
