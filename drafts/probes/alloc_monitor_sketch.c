#include <stdlib.h>
#include <stdio.h>
static struct {void*p; size_t n;} live[64]; static int nlive; int fail_next=0; int zero_bad=0, foreign=0;
void *skv_calloc(size_t a,size_t b){ if(fail_next){fail_next=0;return NULL;} void*p=calloc(a,b); if(p){live[nlive].p=p;live[nlive].n=a*b;nlive++;} return p;}
void skv_free(void*p){ if(!p) return; int i; for(i=0;i<nlive;i++) if(live[i].p==p) break; if(i==nlive){foreign++; return;} unsigned char*q=p; for(size_t j=0;j<live[i].n;j++) if(q[j]){zero_bad++; break;} live[i]=live[--nlive]; free(p);}
int skv_live(void){return nlive;}
