#include "skinny128-cipher.h"
#include "skinny128-parallel.h"
#include "skinny64-cipher.h"
#include "skinny64-parallel.h"
#include "mantis-cipher.h"
#include "mantis-parallel.h"
#include <stdio.h>
#include <string.h>
#include <stdlib.h>
extern int _skinny_verif_vec_limit;
extern void (*_skinny_verif_cpuid)(uint32_t,uint32_t,int,uint32_t[4]);
extern uint32_t (*_skinny_verif_xcr0)(void);
int _skinny_has_vec128(void); int _skinny_has_vec256(void);
static uint64_t st=0x9E3779B97F4A7C15ULL; static uint32_t rnd(void){st^=st<<13;st^=st>>7;st^=st<<17;return (uint32_t)(st>>20);}
#define RUN(T,PFX,BS,KEYCALL) \
 static int run_##PFX(int limit,uint64_t seed,uint8_t*outbuf){ st=seed; _skinny_verif_vec_limit=limit; T c; PFX##_ctr_init(&c); uint8_t key[48],in[700],ctr[16]; size_t pos=0; for(int i=0;i<48;i++)key[i]=rnd(); for(int i=0;i<700;i++)in[i]=rnd(); KEYCALL; \
   int explicit=rnd()%2; if(explicit){for(int i=0;i<16;i++)ctr[i]=(rnd()%3)?0xff:rnd(); PFX##_ctr_set_counter(&c,ctr,rnd()%(BS+1));} \
   int steps=3+rnd()%12; for(int s=0;s<steps&&pos<600;s++){ int what=rnd()%6; if(what==0){ for(int i=0;i<48;i++)key[i]=rnd(); KEYCALL; } else if(what==1){ uint8_t tw[16]; for(int i=0;i<16;i++)tw[i]=rnd(); PFX##_ctr_set_tweak(&c,(rnd()%4)?tw:NULL,BS==16?1+rnd()%16:8);} else { size_t n=rnd()%90; PFX##_ctr_encrypt(outbuf+pos,in+pos,n,&c); pos+=n; } } \
   PFX##_ctr_cleanup(&c); return (int)pos; }
RUN(Skinny128CTR_t,skinny128,16,skinny128_ctr_set_key(&c,key,16+rnd()%33))
RUN(Skinny64CTR_t,skinny64,8,skinny64_ctr_set_tweaked_key(&c,key,8+rnd()%9))
RUN(MantisCTR_t,mantis,8,mantis_ctr_set_key(&c,key,16,5+rnd()%4))
/* CPU model */
static struct { uint32_t maxleaf, l1ecx, l1edx, l7ebx[3], l7max, xcr0, garbage; int intel; } M;
static void model_cpuid(uint32_t leaf,uint32_t sub,int valid,uint32_t r[4]){ if(!valid) sub=M.garbage; r[0]=r[1]=r[2]=r[3]=0;
  if(leaf>M.maxleaf){ if(!M.intel) return; leaf=M.maxleaf; }
  if(leaf==0){ r[0]=M.maxleaf; } else if(leaf==1){ r[2]=M.l1ecx; r[3]=M.l1edx; } else if(leaf==7){ if(sub<=M.l7max){ r[0]=sub==0?M.l7max:0; r[1]=M.l7ebx[sub];} } else { r[0]=rnd(); r[1]=0xffffffff; r[2]=rnd(); r[3]=rnd(); } }
static uint32_t model_xcr0(void){ return M.xcr0; }
int main(void){ int bad=0; uint8_t a[700],b[700],d[700];
 for(uint64_t s=1;s<=60000;s++){ int n=run_skinny128(0,s*77,a); run_skinny128(128,s*77,b); run_skinny128(256,s*77,d); if(memcmp(a,b,n)||memcmp(a,d,n)){bad++; if(bad<4)printf("s128 mismatch seed %lu\n",(unsigned long)s);} 
   n=run_skinny64(0,s*77,a); run_skinny64(128,s*77,b); if(memcmp(a,b,n)){bad++; if(bad<4)printf("s64 mismatch seed %lu\n",(unsigned long)s);} 
   n=run_mantis(0,s*77,a); run_mantis(128,s*77,b); if(memcmp(a,b,n)){bad++; if(bad<4)printf("mantis mismatch seed %lu\n",(unsigned long)s);} }
 printf("cross-back-end differential incl. NULL tweaks, in-between keys, default counters: bad=%d\n",bad);
 _skinny_verif_vec_limit=256;
 /* in-between keys == padded */
 int kb=0; uint8_t key[48],pt[16]={0},o1[16],o2[16]; for(int i=0;i<48;i++)key[i]=0xa0+i;
 for(int len=16;len<=48;len++){ uint8_t pad[48]={0}; memcpy(pad,key,len); int pl=len<=16?16:len<=32?32:48; Skinny128Key_t k1,k2; skinny128_set_key(&k1,key,len); skinny128_set_key(&k2,pad,pl); skinny128_ecb_encrypt(o1,pt,&k1); skinny128_ecb_encrypt(o2,pt,&k2); if(memcmp(o1,o2,16)) kb++; }
 for(int len=8;len<=24;len++){ uint8_t pad[48]={0}; memcpy(pad,key,len); int pl=len<=8?8:len<=16?16:24; Skinny64Key_t k1,k2; skinny64_set_key(&k1,key,len); skinny64_set_key(&k2,pad,pl); skinny64_ecb_encrypt(o1,pt,&k1); skinny64_ecb_encrypt(o2,pt,&k2); if(memcmp(o1,o2,8)) kb++; }
 for(int len=16;len<=32;len++){ uint8_t pad[48]={0}; memcpy(pad,key,len); int pl=len<=16?16:32; Skinny128TweakedKey_t k1,k2; skinny128_set_tweaked_key(&k1,key,len); skinny128_set_tweaked_key(&k2,pad,pl); skinny128_ecb_encrypt(o1,pt,&k1.ks); skinny128_ecb_encrypt(o2,pt,&k2.ks); if(memcmp(o1,o2,16)) kb++; }
 printf("in-between key lengths differing from zero-padded: %d\n",kb);
 /* NULL parallel init */
 printf("parallel init(NULL): %d %d %d\n",skinny128_parallel_ecb_init(0),skinny64_parallel_ecb_init(0),mantis_parallel_ecb_init(0));
 /* CPU models */
 _skinny_verif_cpuid=model_cpuid; _skinny_verif_xcr0=model_xcr0; int cb=0, n256=0, n128=0;
 for(int i=0;i<2000000;i++){ M.maxleaf=rnd()%3?7+rnd()%20:rnd()%8; M.l1ecx=rnd()<<12^rnd(); M.l1edx=rnd()<<12^rnd(); if(rnd()%2){M.l1ecx|=(1u<<27)|(1u<<28);} if(rnd()%2) M.l1edx|=1u<<26; for(int k=0;k<3;k++)M.l7ebx[k]=rnd()<<12^rnd(); if(rnd()%2)M.l7ebx[0]|=1u<<5; M.l7max=rnd()%3; M.xcr0=(rnd()%2)?7:(rnd()%8); M.garbage=rnd()%5?rnd():0; M.intel=rnd()%2;
   int e128=(M.maxleaf>=1 || 1) && ((M.l1edx>>26)&1); /* leaf 1 always exists on SSE2-era parts; model answers leaf1 only if maxleaf>=1 */
   if(M.maxleaf<1) e128 = M.intel? 0:0; 
   int e256= M.maxleaf>=7 && ((M.l1ecx>>27)&1) && ((M.l1ecx>>28)&1) && ((M.xcr0&6)==6) && ((M.l7ebx[0]>>5)&1);
   int g128=_skinny_has_vec128(), g256=_skinny_has_vec256();
   if(M.maxleaf>=1 && g128!=e128){cb++; if(cb<4)printf("vec128 model mismatch\n");}
   if(g256!=e256){cb++; if(cb<4)printf("vec256 model mismatch maxleaf=%u\n",M.maxleaf);} n256+=g256; n128+=g128; }
 printf("cpu-model mismatches: %d (vec256 selected in %d, vec128 in %d of 2000000 models)\n",cb,n256,n128);
 return 0; }
