#include "skinny128-cipher.h"
#include "skinny128-parallel.h"
#include "skinny64-cipher.h"
#include "skinny64-parallel.h"
#include "mantis-cipher.h"
#include "mantis-parallel.h"
#include <stdio.h>
#include <string.h>
extern int fail_next, zero_bad, foreign, _skinny_verif_vec_limit; int skv_live(void);
static uint8_t canary[4096];
#define CTRT(T,P) do{ T c; memset(&c,0xAB,sizeof c); c.ctx=canary; fail_next=1; int r=P##_ctr_init(&c); uint8_t b[32]={0}; int r2=P##_ctr_encrypt(b,b,16,&c); int r3=P##_ctr_set_counter(&c,0,0); P##_ctr_cleanup(&c); P##_ctr_cleanup(&c); printf(#P " ctr limit=%d: init=%d encrypt=%d set_counter=%d live=%d\n",lim,r,r2,r3,skv_live()); }while(0)
#define PART(T,P) do{ T e; memset(&e,0xAB,sizeof e); e.ctx=canary; fail_next=1; int r=P##_parallel_ecb_init(&e); uint8_t k[48]={0}; int r2=P##_parallel_ecb_set_key(&e,k,16,5,1); P##_parallel_ecb_cleanup(&e); printf(#P " parallel: init=%d set_key=%d live=%d\n",r,r2,skv_live()); }while(0)
#define PARS(T,P) do{ T e; memset(&e,0xAB,sizeof e); e.ctx=canary; fail_next=1; int r=P##_parallel_ecb_init(&e); uint8_t k[48]={0}; int r2=P##_parallel_ecb_set_key(&e,k,16); P##_parallel_ecb_cleanup(&e); printf(#P " parallel: init=%d set_key=%d live=%d\n",r,r2,skv_live()); }while(0)
int main(void){ memset(canary,0xCD,sizeof canary);
 for(int lim=0; lim<=256; lim+=128){ _skinny_verif_vec_limit=lim; CTRT(Skinny128CTR_t,skinny128); CTRT(Skinny64CTR_t,skinny64); CTRT(MantisCTR_t,mantis); }
 PARS(Skinny128ParallelECB_t,skinny128); PARS(Skinny64ParallelECB_t,skinny64); PART(MantisParallelECB_t,mantis);
 int wiped=0; for(int i=0;i<4096;i++) if(canary[i]!=0xCD) wiped++; printf("canary bytes touched=%d foreign frees=%d zero_bad=%d\n",wiped,foreign,zero_bad);
 /* normal life cycle zero-at-free across back ends */
 for(int lim=0; lim<=256; lim+=128){ _skinny_verif_vec_limit=lim; Skinny128CTR_t c; uint8_t k[32],b[100]={0}; memset(k,7,32); skinny128_ctr_init(&c); skinny128_ctr_set_key(&c,k,32); skinny128_ctr_encrypt(b,b,77,&c); skinny128_ctr_cleanup(&c);
   Skinny64CTR_t d; skinny64_ctr_init(&d); skinny64_ctr_set_tweaked_key(&d,k,16); skinny64_ctr_set_tweak(&d,NULL,8); skinny64_ctr_encrypt(b,b,77,&d); skinny64_ctr_cleanup(&d);
   MantisCTR_t m; mantis_ctr_init(&m); mantis_ctr_set_key(&m,k,16,7); mantis_ctr_encrypt(b,b,77,&m); mantis_ctr_cleanup(&m); }
 printf("after life cycles: live=%d zero_bad=%d foreign=%d\n",skv_live(),zero_bad,foreign); return 0; }
