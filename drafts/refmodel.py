#!/usr/bin/env python3
"""Literal, table/cell-array models of SKINNY-64/128 and MANTIS-r written from the
specifications (eprint 2016/660), used during design as a probe and later as an
independent cross-check of the C++ reference model.  Deliberately slow and plain."""

# ----------------------------------------------------------------------------- SKINNY
S4 = [0xc, 0x6, 0x9, 0x0, 0x1, 0xa, 0x2, 0xb, 0x3, 0x8, 0x5, 0xd, 0x4, 0xe, 0x7, 0xf]


def _s8(x):
    b = [(x >> i) & 1 for i in range(8)]          # b[i] = x_i
    for it in range(4):
        b[4] ^= 1 ^ (b[7] | b[6])
        b[0] ^= 1 ^ (b[3] | b[2])
        if it < 3:
            # (x7..x0) -> (x2,x1,x7,x6,x4,x0,x3,x5)
            n = [0] * 8
            n[7], n[6], n[5], n[4], n[3], n[2], n[1], n[0] = b[2], b[1], b[7], b[6], b[4], b[0], b[3], b[5]
            b = n
        else:
            b[1], b[2] = b[2], b[1]
    return sum(b[i] << i for i in range(8))


S8 = [_s8(x) for x in range(256)]
assert S8[:8] == [0x65, 0x4c, 0x6a, 0x42, 0x4b, 0x63, 0x43, 0x6b]
assert sorted(S8) == list(range(256)) and sorted(S4) == list(range(16))
S4I = [S4.index(i) for i in range(16)]
S8I = [S8.index(i) for i in range(256)]

PT = [9, 15, 8, 13, 10, 14, 12, 11, 0, 1, 2, 3, 4, 5, 6, 7]
SR = [0, 1, 2, 3, 7, 4, 5, 6, 10, 11, 8, 9, 13, 14, 15, 12]      # new[i] = old[SR[i]]
SRI = [SR.index(i) for i in range(16)]


def _cells(data, s):
    if s == 8:
        return list(data)
    out = []
    for byte in data:
        out += [byte >> 4, byte & 15]
    return out


def _bytes(cells, s):
    if s == 8:
        return bytes(cells)
    return bytes((cells[2 * i] << 4) | cells[2 * i + 1] for i in range(len(cells) // 2))


def _lfsr2(x, s):
    if s == 4:
        return ((x << 1) & 0xE) | (((x >> 3) ^ (x >> 2)) & 1)
    return ((x << 1) & 0xFE) | (((x >> 7) ^ (x >> 5)) & 1)


def _lfsr3(x, s):
    if s == 4:
        return (x >> 1) | (((x ^ (x >> 3)) & 1) << 3)
    return (x >> 1) | (((x ^ (x >> 6)) & 1) << 7)


ROUNDS = {(4, 1): 32, (4, 2): 36, (4, 3): 40, (8, 1): 40, (8, 2): 48, (8, 3): 56}


def _round_material(tweakey, s, domain_bit):
    """yield per round (c0, c1, list of 8 tweakey cells to xor into rows 0,1)"""
    n = 8 if s == 4 else 16
    z = len(tweakey) // n
    assert len(tweakey) == z * n and z in (1, 2, 3)
    tks = [_cells(tweakey[i * n:(i + 1) * n], s) for i in range(z)]
    rc = 0
    out = []
    for _ in range(ROUNDS[(s, z)]):
        rc = ((rc << 1) & 0x3F) | (((rc >> 5) ^ (rc >> 4) ^ 1) & 1)
        rtk = [0] * 8
        for tk in tks:
            for i in range(8):
                rtk[i] ^= tk[i]
        out.append((rc & 0xF, rc >> 4, rtk))
        for zi in range(z):
            tk = [tks[zi][PT[i]] for i in range(16)]
            if zi == 1:
                tk = [_lfsr2(c, s) if i < 8 else c for i, c in enumerate(tk)]
            if zi == 2:
                tk = [_lfsr3(c, s) if i < 8 else c for i, c in enumerate(tk)]
            tks[zi] = tk
    return out


def skinny_encrypt(block, tweakey, domain_bit=False):
    s = 4 if len(block) == 8 else 8
    sb = S4 if s == 4 else S8
    st = _cells(block, s)
    for c0, c1, rtk in _round_material(tweakey, s, domain_bit):
        st = [sb[c] for c in st]
        st[0] ^= c0
        st[4] ^= c1
        st[8] ^= 2
        if domain_bit:
            st[2] ^= 2
        for i in range(8):
            st[i] ^= rtk[i]
        st = [st[SR[i]] for i in range(16)]
        n = [0] * 16
        for c in range(4):
            r0, r1, r2, r3 = st[c], st[4 + c], st[8 + c], st[12 + c]
            n[c], n[4 + c], n[8 + c], n[12 + c] = r0 ^ r2 ^ r3, r0, r1 ^ r2, r0 ^ r2
        st = n
    return _bytes(st, s)


def skinny_decrypt(block, tweakey, domain_bit=False):
    s = 4 if len(block) == 8 else 8
    sbi = S4I if s == 4 else S8I
    st = _cells(block, s)
    for c0, c1, rtk in reversed(_round_material(tweakey, s, domain_bit)):
        n = [0] * 16
        for c in range(4):
            r0, r1, r2, r3 = st[c], st[4 + c], st[8 + c], st[12 + c]
            # inverse of (r0^r2^r3, r0, r1^r2, r0^r2)
            o0 = r1
            o2 = r3 ^ o0
            o1 = r2 ^ o2
            o3 = r0 ^ o0 ^ o2
            n[c], n[4 + c], n[8 + c], n[12 + c] = o0, o1, o2, o3
        st = [n[SRI[i]] for i in range(16)]
        for i in range(8):
            st[i] ^= rtk[i]
        if domain_bit:
            st[2] ^= 2
        st[0] ^= c0
        st[4] ^= c1
        st[8] ^= 2
        st = [sbi[c] for c in st]
    return _bytes(st, s)


def skinny_tweaked(block, key, tweak, decrypt=False):
    """tweak (zero padded on the right to one block) in TK1, key in TK2(/TK3), domain bit set"""
    n = len(block)
    tweak = bytes(tweak) + bytes(n - len(tweak))
    f = skinny_decrypt if decrypt else skinny_encrypt
    return f(block, tweak + bytes(key), True)


# ----------------------------------------------------------------------------- MANTIS
MS = [0xc, 0xa, 0xd, 0x3, 0xe, 0xb, 0xf, 0x7, 0x8, 0x9, 0x1, 0x5, 0x0, 0x2, 0x4, 0x6]
assert [MS[MS[i]] for i in range(16)] == list(range(16))      # involution
MH = [6, 5, 14, 15, 0, 1, 2, 3, 7, 12, 13, 4, 8, 9, 10, 11]
MHI = [MH.index(i) for i in range(16)]
MP = [0, 11, 6, 13, 10, 1, 12, 7, 5, 14, 3, 8, 15, 4, 9, 2]
MPI = [MP.index(i) for i in range(16)]
MRC = [0x13198a2e03707344, 0xa4093822299f31d0, 0x082efa98ec4e6c89, 0x452821e638d01377,
       0xbe5466cf34e90c6c, 0xc0ac29b7c97c50dd, 0x3f84d5b5b5470917, 0x9216d5d98979fb1b]
MALPHA = 0x243f6a8885a308d3


def _n(x):      # 64-bit int -> 16 nibbles, most significant first
    return [(x >> (60 - 4 * i)) & 15 for i in range(16)]


def _u(c):
    v = 0
    for x in c:
        v = (v << 4) | x
    return v


def _mmix(st):
    n = [0] * 16
    for c in range(4):
        a, b, d, e = st[c], st[4 + c], st[8 + c], st[12 + c]
        n[c], n[4 + c], n[8 + c], n[12 + c] = b ^ d ^ e, a ^ d ^ e, a ^ b ^ e, a ^ b ^ d
    return n


def _x(a, b):
    return [p ^ q for p, q in zip(a, b)]


def _mantis_core(m, k0, k0p, k1, t, r):
    st = _n(m ^ k0 ^ k1 ^ t)
    T = _n(t)
    K1 = _n(k1)
    K1A = _n(k1 ^ MALPHA)
    for i in range(r):
        T = [T[MH[j]] for j in range(16)]
        st = [MS[c] for c in st]
        st = _x(st, _n(MRC[i]))
        st = _x(st, _x(K1, T))
        st = [st[MP[j]] for j in range(16)]
        st = _mmix(st)
    st = [MS[c] for c in st]
    st = _mmix(st)
    st = [MS[c] for c in st]
    for i in reversed(range(r)):
        st = _mmix(st)
        st = [st[MPI[j]] for j in range(16)]
        st = _x(st, _x(K1A, T))
        st = _x(st, _n(MRC[i]))
        st = [MS[c] for c in st]
        T = [T[MHI[j]] for j in range(16)]
    return _u(st) ^ k0p ^ k1 ^ MALPHA ^ _u(T)


def mantis_encrypt(block, key, tweak, r):
    k0 = int.from_bytes(key[:8], 'big')
    k1 = int.from_bytes(key[8:], 'big')
    k0p = (((k0 >> 1) | (k0 << 63)) & (2 ** 64 - 1)) ^ (k0 >> 63)
    c = _mantis_core(int.from_bytes(block, 'big'), k0, k0p, k1, int.from_bytes(tweak, 'big'), r)
    return c.to_bytes(8, 'big')


def mantis_decrypt(block, key, tweak, r):
    k0 = int.from_bytes(key[:8], 'big')
    k1 = int.from_bytes(key[8:], 'big')
    k0p = (((k0 >> 1) | (k0 << 63)) & (2 ** 64 - 1)) ^ (k0 >> 63)
    c = _mantis_core(int.from_bytes(block, 'big'), k0p, k0, k1 ^ MALPHA, int.from_bytes(tweak, 'big'), r)
    return c.to_bytes(8, 'big')


# ----------------------------------------------------------------------------- published vectors
KATS = [
    ("f5269826fc681238", "06034f957724d19d", "bb39dfb2429b8ac7"),
    ("9eb93640d088da6376a39d1c8bea71e1", "cf16cfe8fd0f98aa", "6ceda1f43de92b9e"),
    ("ed00c85b120d68618753e24bfd908f60b2dbb41b422dfcd0", "530c61d35e8663c3", "dd2cf1a8f330303c"),
    ("4f55cfb0520cac52fd92c15f37073e93", "f20adb0eb08b648a3b2eeed1f0adda14", "22ff30d498ea62d7e45b476e33675b74"),
    ("009cec81605d4ac1d2ae9e3085d7a1f31ac123ebfc00fddcf01046ceeddfcab3",
     "3a0c47767a26a68dd382a695e7022e25", "b731d98a4bde147a7ed4a6f16b9b587f"),
    ("df889548cfc7ea52d296339301797449ab588a34a47f1ab2dfe9c8293fbea9a5ab1afac2611012cd8cef952618c3ebe8",
     "a3994b66ad85a3459f44e92b08f550cb", "94ecf589e2017c601b38c6346a10dcfa"),
]
MKATS = [
    (5, "3b5c77a4921f9718", "d6522035c1c0c6c1"),
    (6, "d6522035c1c0c6c1", "60e43457311936fd"),
    (7, "60e43457311936fd", "308e8a07f168f517"),
    (8, "308e8a07f168f517", "971ea01a86b410bb"),
]
MKEY = bytes.fromhex("92f09952c625e3e9d7a060f714c0292b")
MTWEAK = bytes.fromhex("ba912e6f1055fed2")


def selftest():
    for k, p, c in KATS:
        k, p, c = bytes.fromhex(k), bytes.fromhex(p), bytes.fromhex(c)
        assert skinny_encrypt(p, k) == c, ("skinny enc", k.hex())
        assert skinny_decrypt(c, k) == p, ("skinny dec", k.hex())
    for r, p, c in MKATS:
        p, c = bytes.fromhex(p), bytes.fromhex(c)
        assert mantis_encrypt(p, MKEY, MTWEAK, r) == c, ("mantis enc", r)
        assert mantis_decrypt(c, MKEY, MTWEAK, r) == p, ("mantis dec", r)
    return True


if __name__ == "__main__":
    selftest()
    print("reference models reproduce the 6 SKINNY and 4 MANTIS published vectors")
