"""Shared driver code for the skinny-c verification checks (python3 stdlib only).

Everything a check needs is rebuilt from /repo's *current working tree*; caches
under /verif/build are content-addressed (sha256 over the sources and flags) so
an edit to the tree always produces a fresh build.
"""
import hashlib, json, os, re, shutil, subprocess, sys, tempfile, time, glob
from concurrent.futures import ThreadPoolExecutor

VERIF = os.path.dirname(os.path.dirname(os.path.abspath(__file__)))
REPO = os.environ.get("VERIF_REPO", "/repo")
BUILD = os.path.join(VERIF, "build")
HARNESS = os.path.join(VERIF, "harness")
NCPU = int(os.environ.get("VERIF_JOBS", "16"))
GUARD = "SKINNY_C_VERIF"

LIB_SOURCES = [
    "skinny-internal.c", "skinny128-cipher.c", "skinny128-ctr.c", "skinny128-ctr-vec128.c",
    "skinny128-ctr-vec256.c", "skinny128-parallel.c", "skinny128-parallel-vec128.c",
    "skinny128-parallel-vec256.c", "skinny64-cipher.c", "skinny64-ctr.c", "skinny64-ctr-vec128.c",
    "skinny64-parallel.c", "skinny64-parallel-vec128.c", "mantis-cipher.c", "mantis-ctr.c",
    "mantis-ctr-vec128.c", "mantis-parallel.c", "mantis-parallel-vec128.c",
]


class InfraError(Exception):
    """The machinery itself broke (never reported as a VIOLATION)."""


def sh(cmd, **kw):
    r = subprocess.run(cmd, stdout=subprocess.PIPE, stderr=subprocess.STDOUT, text=True, **kw)
    return r.returncode, r.stdout


def sha_files(paths, extra=""):
    h = hashlib.sha256()
    h.update(extra.encode())
    for p in sorted(paths, key=os.path.basename):
        h.update(os.path.basename(p).encode())
        try:
            with open(p, "rb") as f:
                h.update(f.read())
        except OSError:
            h.update(b"<missing>")
    return h.hexdigest()[:20]


def repo_lib_files():
    return sorted(glob.glob(os.path.join(REPO, "src", "*.[ch]")) +
                  glob.glob(os.path.join(REPO, "include", "*.h")))


def _prune(dirpath, keep):
    """Keep the cache small: drop all but the `keep` most recently used entries - but never one used in the last
    three hours (several checks, mutation campaigns and background runs may share the cache)."""
    try:
        now = time.time()
        ents = []
        for e in os.listdir(dirpath):
            p = os.path.join(dirpath, e)
            try:
                if os.path.isdir(p):
                    ents.append((os.path.getmtime(p), p))
            except OSError:
                pass
        ents.sort(reverse=True)
        for mt, p in ents[keep:]:
            if now - mt > 3 * 3600:
                shutil.rmtree(p, ignore_errors=True)
    except OSError:
        pass


# --------------------------------------------------------------------------- library builds

def vec_flags(src, vec128="-msse2", vec256="-mavx2"):
    """Per-file SIMD flags exactly as src/Makefile applies them."""
    f = []
    if src == "skinny-internal.c":
        f = [vec128, vec256]
    elif "vec128" in src:
        f = [vec128]
    elif "vec256" in src:
        f = [vec256]
    return [x for x in f if x]


class LibCfg:
    """One build configuration of the library."""
    def __init__(self, name="shipped", cc="gcc", opt="-O3", std="-std=c99", cflags=(), defs=(),
                 vec128="-msse2", vec256="-mavx2", prefix=None, alloc_redirect=False, guard=True, make=False):
        self.make = make          # True: built by the repository's own Makefile (build_make_lib), all other fields unused
        self.name = name; self.cc = cc; self.opt = opt; self.std = std
        self.cflags = list(cflags); self.defs = list(defs)
        self.vec128 = vec128; self.vec256 = vec256
        self.prefix = prefix; self.alloc_redirect = alloc_redirect; self.guard = guard

    def key(self):
        return json.dumps([self.cc, self.opt, self.std, self.cflags, self.defs, self.vec128,
                           self.vec256, self.prefix, self.alloc_redirect, self.guard] + (["make"] if self.make else []))


def build_lib(cfg, quiet=True):
    """Compile /repo/src/*.c for cfg.  Returns the path of a single relocatable object
    (lib.o) containing the whole library (symbols optionally prefixed / allocator
    redirected)."""
    if cfg.make:
        return build_make_lib(alloc_redirect=cfg.alloc_redirect)
    h = sha_files(repo_lib_files(), cfg.key())
    out = os.path.join(BUILD, "lib", h)
    final = os.path.join(out, "lib.o")
    if os.path.exists(final):
        os.utime(out, None)
        return final
    tmp = tempfile.mkdtemp(prefix="lib-", dir=_mk(os.path.join(BUILD, "tmp")))
    try:
        def one(src):
            o = os.path.join(tmp, src[:-2] + ".o")
            cmd = [cfg.cc, cfg.std] + vec_flags(src, cfg.vec128, cfg.vec256) + [cfg.opt, "-Wall", "-Wextra",
                   "-I" + os.path.join(REPO, "include")]
            if cfg.guard:
                cmd.append("-D" + GUARD)
            cmd += ["-D" + d for d in cfg.defs] + cfg.cflags + ["-c", "-o", o, os.path.join(REPO, "src", src)]
            rc, outp = sh(cmd)
            if rc != 0:
                raise InfraError("library does not compile (%s): %s\n%s" % (cfg.name, " ".join(cmd), outp[-3000:]))
            return o
        with ThreadPoolExecutor(NCPU) as ex:
            objs = list(ex.map(one, LIB_SOURCES))
        comb = os.path.join(tmp, "comb.o")
        rc, outp = sh(["ld", "-r", "-o", comb] + objs)
        if rc != 0:
            raise InfraError("ld -r failed: " + outp[-2000:])
        redefs = []
        if cfg.prefix:
            rc, outp = sh(["nm", "-g", "--defined-only", comb])
            for line in outp.splitlines():
                parts = line.split()
                if len(parts) == 3:
                    redefs.append((parts[2], cfg.prefix + parts[2]))
        if cfg.alloc_redirect:
            redefs += [("calloc", "skv_calloc"), ("malloc", "skv_malloc"), ("free", "skv_free"),
                       ("realloc", "skv_realloc")]
        if redefs:
            mapf = os.path.join(tmp, "syms.map")
            with open(mapf, "w") as f:
                for a, b in redefs:
                    f.write("%s %s\n" % (a, b))
            rc, outp = sh(["objcopy", "--redefine-syms=" + mapf, comb])
            if rc != 0:
                raise InfraError("objcopy failed: " + outp[-2000:])
        _mk(out)
        os.replace(comb, final)
    finally:
        shutil.rmtree(tmp, ignore_errors=True)
    _prune(os.path.join(BUILD, "lib"), 400)
    return final


def build_make_lib(pic=False, shared=False, alloc_redirect=False):
    """The library exactly as the repository's own build system produces it: src/, include/ and options.mak are
    copied to a scratch directory (never building inside the repository) and `make -C src libskinny.a` runs there
    with CFLAGS=-DSKINNY_C_VERIF (src/Makefile appends to CFLAGS).  Returns lib.o (ld -r over the whole archive)
    or, with shared=True, libskinny.so.  Whatever the Makefile and options.mak say - compiler flags, per-file
    SIMD flags, the object list - is what gets tested."""
    files = repo_lib_files() + [os.path.join(REPO, "src", "Makefile"), os.path.join(REPO, "options.mak")]
    h = sha_files(files, "make:%d:%d:%d" % (pic, shared, alloc_redirect))
    out = os.path.join(BUILD, "lib", h)
    final = os.path.join(out, "libskinny.so" if shared else "lib.o")
    if os.path.exists(final):
        os.utime(out, None)
        return final
    tmp = tempfile.mkdtemp(prefix="mk-", dir=_mk(os.path.join(BUILD, "tmp")))
    try:
        for d in ("src", "include"):
            shutil.copytree(os.path.join(REPO, d), os.path.join(tmp, d), ignore=shutil.ignore_patterns("*.o", "*.a"))
        shutil.copy(os.path.join(REPO, "options.mak"), tmp)
        env = dict(os.environ, CFLAGS="-D" + GUARD + (" -fPIC" if pic or shared else ""))
        env.pop("MAKEFLAGS", None)
        rc, outp = sh(["make", "-C", os.path.join(tmp, "src"), "-j", str(NCPU), "libskinny.a"], env=env)
        if rc != 0:
            raise InfraError("the repository's own build (make -C src) fails:\n" + outp[-3000:])
        arch = os.path.join(tmp, "src", "libskinny.a")
        _mk(out)
        if shared:
            rc, outp = sh(["gcc", "-shared", "-o", os.path.join(tmp, "libskinny.so"), "-Wl,--whole-archive", arch, "-Wl,--no-whole-archive"])
            if rc != 0:
                raise InfraError("linking libskinny.so from the make build failed: " + outp[-2000:])
            os.replace(os.path.join(tmp, "libskinny.so"), final)
        else:
            comb = os.path.join(tmp, "comb.o")
            rc, outp = sh(["ld", "-r", "-o", comb, "--whole-archive", arch])
            if rc != 0:
                raise InfraError("ld -r over libskinny.a failed: " + outp[-2000:])
            if alloc_redirect:
                mapf = os.path.join(tmp, "syms.map")
                with open(mapf, "w") as f:
                    f.write("calloc skv_calloc\nmalloc skv_malloc\nfree skv_free\nrealloc skv_realloc\n")
                rc, outp = sh(["objcopy", "--redefine-syms=" + mapf, comb])
                if rc != 0:
                    raise InfraError("objcopy failed: " + outp[-2000:])
            os.replace(comb, final)
    finally:
        shutil.rmtree(tmp, ignore_errors=True)
    return final


def build_shared(cfg):
    """Compile /repo/src/*.c for cfg as position-independent code into one shared object (loaded with
    dlopen/RTLD_LOCAL by the multi-configuration harness)."""
    if cfg.make:
        return build_make_lib(shared=True)
    h = sha_files(repo_lib_files(), "shared:" + cfg.key())
    out = os.path.join(BUILD, "lib", h)
    final = os.path.join(out, "libskinny.so")
    if os.path.exists(final):
        os.utime(out, None)
        return final
    tmp = tempfile.mkdtemp(prefix="so-", dir=_mk(os.path.join(BUILD, "tmp")))
    try:
        def one(src):
            o = os.path.join(tmp, src[:-2] + ".o")
            cmd = [cfg.cc, cfg.std, "-fPIC"] + vec_flags(src, cfg.vec128, cfg.vec256) + [cfg.opt, "-I" + os.path.join(REPO, "include")]
            if cfg.guard:
                cmd.append("-D" + GUARD)
            cmd += ["-D" + d for d in cfg.defs] + cfg.cflags + ["-c", "-o", o, os.path.join(REPO, "src", src)]
            rc, outp = sh(cmd)
            if rc != 0:
                raise InfraError("library does not compile (%s): %s\n%s" % (cfg.name, " ".join(cmd), outp[-3000:]))
            return o
        with ThreadPoolExecutor(4) as ex:
            objs = list(ex.map(one, LIB_SOURCES))
        so = os.path.join(tmp, "libskinny.so")
        rc, outp = sh([cfg.cc, "-shared", "-o", so] + objs + cfg.cflags)
        if rc != 0:
            raise InfraError("shared link failed: " + outp[-2000:])
        _mk(out)
        os.replace(so, final)
    finally:
        shutil.rmtree(tmp, ignore_errors=True)
    _prune(os.path.join(BUILD, "lib"), 400)
    return final


def _mk(d):
    os.makedirs(d, exist_ok=True)
    return d


# --------------------------------------------------------------------------- harness builds

def harness_dep_files():
    return sorted(glob.glob(os.path.join(HARNESS, "*.hpp")) + glob.glob(os.path.join(HARNESS, "*.h")) +
                  glob.glob(os.path.join(REPO, "include", "*.h")))


def build_harness_obj(src, cxx="g++", flags=(), extra_deps=()):
    """Compile one harness translation unit (cached by content)."""
    path = os.path.join(HARNESS, src)
    flags = list(flags)
    h = sha_files([path] + harness_dep_files() + list(extra_deps), json.dumps([cxx, flags]))
    out = os.path.join(BUILD, "hobj", h)
    obj = os.path.join(out, os.path.splitext(src)[0] + ".o")
    if os.path.exists(obj):
        os.utime(out, None)
        return obj
    _mk(out)
    tmpo = obj + ".tmp%d" % os.getpid()
    lang = ["-std=gnu++17"] if src.endswith(".cpp") else []
    cmd = [cxx] + lang + ["-g", "-O2", "-I" + HARNESS, "-I" + os.path.join(REPO, "include")] + flags + \
          ["-c", "-o", tmpo, path]
    rc, outp = sh(cmd)
    if rc != 0:
        shutil.rmtree(out, ignore_errors=True)
        raise InfraError("harness does not compile: %s\n%s" % (" ".join(cmd), outp[-6000:]))
    os.replace(tmpo, obj)
    _prune(os.path.join(BUILD, "hobj"), 200)
    return obj


def build_ext_obj(path, cxx="g++", flags=(), deps=()):
    """Compile a source file that lives in the repository (Arduino port, example tools) - cached by content."""
    flags = list(flags)
    h = sha_files([path] + list(deps), json.dumps([cxx, flags, "ext"]))
    out = os.path.join(BUILD, "hobj", h)
    obj = os.path.join(out, os.path.splitext(os.path.basename(path))[0] + ".o")
    if os.path.exists(obj):
        os.utime(out, None)
        return obj
    _mk(out)
    tmpo = obj + ".tmp%d" % os.getpid()
    cmd = [cxx, "-g", "-O2"] + flags + ["-c", "-o", tmpo, path]
    rc, outp = sh(cmd)
    if rc != 0:
        shutil.rmtree(out, ignore_errors=True)
        raise InfraError("repository source does not compile: %s\n%s" % (" ".join(cmd), outp[-4000:]))
    os.replace(tmpo, obj)
    return obj


def link(objs, out, cxx="g++", libs=("-lrapidcheck",), flags=()):
    cmd = [cxx, "-o", out] + list(flags) + list(objs) + list(libs) + ["-lpthread"]
    rc, outp = sh(cmd)
    if rc != 0:
        raise InfraError("link failed: %s\n%s" % (" ".join(cmd), outp[-4000:]))
    return out


# --------------------------------------------------------------------------- running shards

def run_procs(cmds, timeout=None, env=None, cwd=None):
    """Run commands in parallel (at most NCPU at a time).  Returns list of (rc, output)."""
    def one(c):
        e = dict(os.environ)
        if isinstance(c, tuple):
            c, ee = c
            e.update(ee)
        if env:
            e.update(env)
        try:
            r = subprocess.run(c, stdout=subprocess.PIPE, stderr=subprocess.STDOUT, text=True, env=e,
                               timeout=timeout, cwd=cwd, errors="replace")
            return r.returncode, r.stdout
        except subprocess.TimeoutExpired as t:
            o = t.stdout or ""
            if isinstance(o, bytes):
                o = o.decode(errors="replace")
            return -999, o
    with ThreadPoolExecutor(NCPU) as ex:
        return list(ex.map(one, cmds))


# --------------------------------------------------------------------------- known findings

def known_findings():
    """Parse /verif/KNOWN_FINDINGS.txt -> list of dicts for `known:` lines (never written at run time)."""
    res = []
    p = os.path.join(VERIF, "KNOWN_FINDINGS.txt")
    if not os.path.exists(p):
        return res
    for line in open(p):
        line = line.strip()
        m = re.match(r"^known:\s+property=(\S+)\s+id=(\S+)\s+replay=(\S+)\s+(.*)$", line)
        if m:
            res.append(dict(property=m.group(1), id=m.group(2), replay=m.group(3), what=m.group(4)))
    return res


# --------------------------------------------------------------------------- evidence

def write_evidence(pid, tier, seed, level, coverage, assumptions, wall_s, violations):
    ev = dict(property_id=pid, tier=tier, seed=int(seed), level=level, coverage=coverage,
              assumptions=assumptions, wall_s=round(wall_s, 2), violations=int(violations))
    # evidence/ describes runs against /repo itself; a run redirected to a scratch tree (VERIF_REPO: mutants, seeded
    # changes) leaves its evidence under build/ instead
    edir = os.path.join(VERIF, "evidence") if not os.environ.get("VERIF_REPO") else os.path.join(VERIF, "build", "scratch-evidence")
    _mk(edir)
    p = os.path.join(edir, pid + ".json")
    tmp = p + ".tmp"
    with open(tmp, "w") as f:
        json.dump(ev, f, indent=1, sort_keys=True)
        f.write("\n")
    os.replace(tmp, p)
    return p


def merge_stats(stat_files):
    """Merge the per-shard statistics JSON files written by the harness binaries."""
    tot = dict(evaluations=0, classes={}, samples=[], nontrivial_shard_sum=0, extra={})
    for sf in stat_files:
        try:
            s = json.load(open(sf))
        except Exception:
            continue
        tot["evaluations"] += s.get("evaluations", 0)
        tot["nontrivial_shard_sum"] += s.get("distinct_nontrivial", 0)
        for k, v in s.get("classes", {}).items():
            tot["classes"][k] = tot["classes"].get(k, 0) + v
        for x in s.get("samples", []):
            if len(tot["samples"]) < 6:
                tot["samples"].append(x)
        for k, v in s.get("extra", {}).items():
            if isinstance(v, (int, float)):
                tot["extra"][k] = tot["extra"].get(k, 0) + v
            else:
                tot["extra"][k] = v
    return tot
