"""C13, clause "never a back end whose instructions the CPU cannot execute": executed-instruction audit.

Generated programs (the C06 generator: every object kind, back-end cap 0 / 128 / 256, valid and invalid calls) are
run by the trace interpreter (harness/c08trace.cpp) under `valgrind --tool=lackey --trace-mem=yes`, linked against the
library *as the repository's own Makefile builds it*.  Every instruction executed inside a library function between
the call markers is looked up in the disassembly and classified by the instruction-set extension it belongs to.  The
selection logic of the library probes exactly: SSE2 for the 128-bit back ends, OSXSAVE + AVX + XCR0 + AVX2 for the
256-bit one, nothing for the generic code.  So

  * an object capped at the generic or the 128-bit back end may execute x86-64 baseline instructions (SSE2 is part of
    the baseline) and nothing newer - no SSE3 / SSSE3 / SSE4.x / AVX / BMI / ...;
  * an object on the 256-bit back end may in addition execute AVX / AVX2 instructions (and the legacy SSE3..SSE4.2
    encodings, which no AVX2 processor lacks) - but no AVX-512, FMA, F16C, BMI, ADX, ..., which nothing probed.

Instructions executed in libc (memset and friends pick their own variant at run time) are not the library's and are
ignored.  cpuid / xgetbv are the probes themselves (XGETBV without OSXSAVE is checked on modelled CPUs by c13.cpp).
"""
import os, re, subprocess
import skv
from skv import InfraError

SSE3 = {"addsubpd", "addsubps", "haddpd", "haddps", "hsubpd", "hsubps", "lddqu", "movddup", "movshdup", "movsldup", "fisttp", "monitor", "mwait"}
SSSE3 = {"pshufb", "palignr", "pabsb", "pabsw", "pabsd", "phaddw", "phaddd", "phaddsw", "phsubw", "phsubd", "phsubsw", "pmaddubsw",
         "pmulhrsw", "psignb", "psignw", "psignd"}
SSE41 = {"pblendw", "pblendvb", "blendpd", "blendps", "blendvpd", "blendvps", "pmovsxbw", "pmovsxbd", "pmovsxbq", "pmovsxwd", "pmovsxwq",
         "pmovsxdq", "pmovzxbw", "pmovzxbd", "pmovzxbq", "pmovzxwd", "pmovzxwq", "pmovzxdq", "pextrb", "pextrd", "pextrq", "pinsrb",
         "pinsrd", "pinsrq", "pmaxsb", "pmaxsd", "pmaxuw", "pmaxud", "pminsb", "pminsd", "pminuw", "pminud", "ptest", "pmulld", "pmuldq",
         "roundpd", "roundps", "roundsd", "roundss", "dppd", "dpps", "insertps", "extractps", "mpsadbw", "packusdw", "pcmpeqq",
         "movntdqa", "phminposuw"}
SSE42 = {"pcmpgtq", "pcmpestri", "pcmpestrm", "pcmpistri", "pcmpistrm", "crc32", "crc32b", "crc32w", "crc32l", "crc32q"}
OTHER = {"popcnt": "POPCNT", "lzcnt": "LZCNT", "tzcnt": "BMI1", "andn": "BMI1", "bextr": "BMI1", "blsi": "BMI1", "blsr": "BMI1",
         "blsmsk": "BMI1", "bzhi": "BMI2", "pdep": "BMI2", "pext": "BMI2", "mulx": "BMI2", "rorx": "BMI2", "sarx": "BMI2", "shlx": "BMI2",
         "shrx": "BMI2", "adcx": "ADX", "adox": "ADX", "movbe": "MOVBE", "aesenc": "AES", "aesenclast": "AES", "aesdec": "AES",
         "aesdeclast": "AES", "aesimc": "AES", "aeskeygenassist": "AES", "pclmulqdq": "PCLMUL", "sha1rnds4": "SHA", "sha256rnds2": "SHA",
         "rdrand": "RDRAND", "rdseed": "RDSEED", "xsave": "XSAVE", "xrstor": "XSAVE"}
SUFFIXED = re.compile(r"^(popcnt|lzcnt|tzcnt|andn|bextr|blsi|blsr|blsmsk|bzhi|pdep|pext|mulx|rorx|sarx|shlx|shrx|adcx|adox|movbe|crc32)[bwlq]$")


def isa_of(mn, ops):
    """Name of the extension an instruction needs, or None for the x86-64 baseline (SSE2 included)."""
    m = SUFFIXED.match(mn)
    if m:
        mn = m.group(1)
    if mn in OTHER:
        return OTHER[mn]
    if mn in SSE3: return "SSE3"
    if mn in SSSE3:
        return "SSSE3"
    if mn in SSE41:
        # pextrw/pinsrw are SSE2; the b/d/q forms are SSE4.1 (listed above)
        return "SSE4.1"
    if mn in SSE42: return "SSE4.2"
    if mn.startswith("v") and mn not in ("verr", "verw"):
        if "%zmm" in ops or "%k" in ops or "{" in ops:
            return "AVX-512"
        if mn.startswith("vfm") or mn.startswith("vfnm"):
            return "FMA"
        if mn in ("vcvtph2ps", "vcvtps2ph"):
            return "F16C"
        if mn.startswith("vpdp"):
            return "AVX-VNNI"
        if mn.startswith("vaes") or mn.startswith("vpclmul"):
            return "VAES/VPCLMUL"
        if mn.startswith("vgf2p8"):
            return "GFNI"
        return "AVX/AVX2"
    return None


LEGACY = ("SSE3", "SSSE3", "SSE4.1", "SSE4.2")


def allowed(isa, level):
    if isa is None:
        return True
    if level == 256:
        return isa == "AVX/AVX2" or isa in LEGACY
    return False


def build(work):
    objs = [skv.build_harness_obj("c08trace.cpp"), skv.build_lib(skv.LibCfg(name="as-built-by-make", make=True))]
    exe = os.path.join(work, "isa-trace")
    return skv.link(objs, exe, libs=["-ldl"])


def disassemble(exe):
    """addr -> (mnemonic, operands, function); set of the library's own function names."""
    libo = skv.build_lib(skv.LibCfg(name="as-built-by-make", make=True))
    rc, out = skv.sh(["nm", "--defined-only", libo])
    libfuncs = set()
    for line in out.splitlines():
        p = line.split()
        if len(p) == 3 and p[1] in ("T", "t"):
            libfuncs.add(p[2])
    r = subprocess.run(["objdump", "-d", "--no-show-raw-insn", exe], stdout=subprocess.PIPE, stderr=subprocess.DEVNULL, text=True)
    if r.returncode != 0:
        raise InfraError("objdump failed")
    insn = {}
    func = None
    syms = {}
    hdr = re.compile(r"^([0-9a-f]+) <([^>]+)>:$")
    ins = re.compile(r"^\s*([0-9a-f]+):\s+(.*)$")
    for line in r.stdout.splitlines():
        m = hdr.match(line)
        if m:
            func = m.group(2); syms[func] = int(m.group(1), 16)
            continue
        m = ins.match(line)
        if m and func:
            text = m.group(2).strip()
            parts = text.split(None, 1)
            if not parts:
                continue
            mn = parts[0]
            # prefixes printed as separate words
            while mn in ("lock", "rep", "repz", "repnz", "data16", "notrack", "bnd", "cs", "ds", "es", "fs", "gs", "ss", "addr32") and len(parts) > 1:
                parts = parts[1].split(None, 1); mn = parts[0]
            insn[int(m.group(1), 16)] = (mn, parts[1] if len(parts) > 1 else "", func)
    return insn, syms, libfuncs


def level_of(progtext):
    """Back-end cap the program's objects were initialised with: None if mixed or absent."""
    caps = set()
    for line in progtext.splitlines():
        if ".init " in line + " ":
            kind = line.split(".", 1)[0]
            m = re.search(r"\bbe=(\d+)", line)
            cap = int(m.group(1)) if m else 256
            if kind in ("c64", "cm", "p64", "pm") and cap > 128:
                cap = 128          # these ciphers have no 256-bit back end
            caps.add(cap)
    if not caps:
        return None
    return 256 if 256 in caps else 128


def audit(exe, prog, work, insn, syms, libfuncs, tag):
    """Returns (violation text or None, instructions looked at, distinct library instructions)."""
    level = level_of(open(prog).read())
    if level is None:
        return None, 0, 0
    log = os.path.join(work, "lackey-%s.log" % tag)
    r = subprocess.run(["valgrind", "--tool=lackey", "--trace-mem=yes", "--log-file=" + log, exe, prog, "1"],
                       stdout=subprocess.PIPE, stderr=subprocess.STDOUT, text=True, timeout=1800)
    b = e = None
    for line in r.stdout.splitlines():
        if line.startswith("markers "):
            _, b, e = line.split()
    if b is None:
        raise InfraError("trace interpreter printed no markers: " + r.stdout[-500:])
    b = int(b, 16); e = int(e, 16)
    bias = b - syms["skv_trace_begin"]
    seen = set(); total = 0; inside = False
    with open(log, errors="replace") as f:
        for line in f:
            if not line.startswith("I "):
                continue
            a = int(line[3:].split(",")[0], 16)
            if a == b: inside = True; continue
            if a == e: inside = False; continue
            if inside:
                total += 1
                seen.add(a - bias)
    os.unlink(log)
    bad = None; nlib = 0
    for a in sorted(seen):
        rec = insn.get(a)
        if not rec or rec[2] not in libfuncs:
            continue
        nlib += 1
        isa = isa_of(rec[0], rec[1])
        if not allowed(isa, level) and bad is None:
            bad = ("an object whose back end is capped at %s executes `%s %s` (%s) in %s - an instruction that the selection logic never probed for"
                   % ("the 256-bit back end" if level == 256 else "the generic / 128-bit back ends", rec[0], rec[1], isa, rec[2]))
    return bad, total, nlib
