"""Registry: property id -> function(pid, tier, seed, replay_path) -> exit code."""
import os
import skv, runner
from skv import LibCfg
from runner import Unit

SHIPPED = LibCfg(name="shipped")   # gcc -O3 -std=c99, -msse2/-mavx2 per file, hooks compiled in but inert

MODEL_ASSUME = [
    "reference models in harness/ref.hpp are correct transcriptions of the SKINNY / MANTIS specifications "
    "(self-tested on the ten published vectors and the inverse law at every start; cross-checked against "
    "drafts/refmodel.py by bin/setup)",
    "library compiled from /repo's working tree with the shipped flags (gcc -O3 -std=c99, -msse2/-mavx2 per file) "
    "plus -DSKINNY_C_VERIF; back ends pinned through the _skinny_verif_vec_limit hook",
]


def scale(tier, quick, thorough):
    return quick if tier == "quick" else thorough


def known_for(pid):
    return [k for k in skv.known_findings() if k["property"] == pid]


def c05(pid, tier, seed, replay):
    u = Unit("c05", "c05.cpp", SHIPPED, cases=scale(tier, 2500, 60000), shards=16, max_size=100)
    if replay:
        return runner.replay_only(pid, [u], replay)
    rule = ("structured CTR programs (init; optional early set_counter; key/tweak set-up; 1-3 segments of "
            "[set_counter]? chunk*) for Skinny-128/64 plain and tweaked and Mantis-5..8 on every back end, compared "
            "byte for byte with in xor E(c+i) from the specification model, plus re-application restoring the input; "
            "a case is non-trivial if its stream crosses a vector-batch boundary at a ragged cut, or a carry runs "
            "through >= 2 counter bytes, or the counter wraps, or the post-init default / a short / a NULL counter is "
            "used; distinct = distinct serialised programs among those")
    return runner.run_units(pid, [u], tier, seed, "exploration", rule, MODEL_ASSUME, known=known_for(pid))


REGISTRY = {"C05": c05}
