"""Registry of the checks: property id -> units, rule, level, manifest metadata."""
import os
import skv, runner
from skv import LibCfg
from runner import Unit

SHIPPED = LibCfg(name="shipped")   # gcc -O3 -std=c99, -msse2/-mavx2 per file, hooks compiled in but inert

MODEL_ASSUME = [
    "reference models in harness/ref.hpp are correct transcriptions of the SKINNY / MANTIS specifications "
    "(self-tested on the ten published vectors and the inverse law at every start; cross-checked against the "
    "independent Python models drafts/refmodel.py by bin/setup)",
]
BUILD_ASSUME = [
    "library compiled from /repo's working tree with the shipped flags (gcc -O3 -std=c99, -msse2/-mavx2 per file) "
    "plus -DSKINNY_C_VERIF; back ends pinned through the _skinny_verif_vec_limit hook, which can only lower what "
    "the CPU probe reports",
]


def scale(tier, quick, thorough):
    return quick if tier == "quick" else thorough


def known_for(pid):
    return [k for k in skv.known_findings() if k["property"] == pid]


PROPS = {}


def prop(pid, **kw):
    PROPS[pid] = kw


# ----------------------------------------------------------------------------- C05
prop("C05",
     units=lambda tier: [Unit("c05", "c05.cpp", SHIPPED, cases=scale(tier, 2500, 60000), shards=16)],
     level="exploration",
     rule=("structured CTR programs (init; optional early set_counter; key/tweak set-up; 1-3 segments of "
           "[set_counter]? chunk*) for Skinny-128/64 plain and tweaked and Mantis-5..8 on every back end, compared "
           "byte for byte with in xor E(c+i) from the specification model, plus re-application restoring the input; "
           "a case is non-trivial if its stream crosses a vector-batch boundary at a ragged cut, or a carry runs "
           "through >= 2 counter bytes, or the counter wraps, or the post-init default / a short / a NULL counter is "
           "used; distinct = distinct serialised programs among those"),
     assumptions=MODEL_ASSUME + BUILD_ASSUME,
     technique="property-based testing (rapidcheck): generated CTR call programs vs. specification model, shrinking to a replay file",
     text=("Generated-input search: every generated CTR program must reproduce in xor E(c+i) of an independent "
           "specification model on every back end; counters, lengths and cuts are biased towards carries, wrap-around, "
           "short/NULL/default counters and ragged batch boundaries. Sampling, not proof: 2^128+ inputs cannot be enumerated."),
     note="trusts the reference model (KAT-checked, cross-checked with a second model) and the back-end pin hook",
     design_ref="DESIGN.md#c05")



# ----------------------------------------------------------------------------- C01 C02 C04
prop("C01",
     units=lambda tier: [Unit("c01", "c01.cpp", SHIPPED, cases=scale(tier, 6000, 250000), shards=16)],
     level="exploration",
     rule=("(variant, key of a primary size, 1-4 blocks, direction, buffer placement incl. overlap) through "
           "skinnyN_set_key + skinnyN_ecb_encrypt/decrypt, compared with the table-driven specification model; keys and "
           "blocks from a mixture of uniform / sparse / constant / counting / high-bit byte strings; non-trivial = key is "
           "neither all-zero nor one of the six published vectors; distinct = distinct serialised cases"),
     assumptions=MODEL_ASSUME + BUILD_ASSUME + ["other compile-time paths are C12's job"],
     technique="property-based testing (rapidcheck): random keys/blocks vs. independent specification model",
     text=("Generated (key, block, variant, direction) cases must equal an independent table-driven SKINNY model that is "
           "itself checked against the six published vectors at start-up. Sampling of a 2^128..2^512 input space; "
           "straight-line code without data-dependent branches, so structured sampling is the honest level."),
     note="trusts the reference model (KAT-checked; cross-checked with a second, Python model)",
     design_ref="DESIGN.md#c01")

prop("C02",
     units=lambda tier: [Unit("c02", "c02.cpp", SHIPPED, cases=scale(tier, 8000, 300000), shards=16)],
     level="exploration",
     rule=("(key, tweak, blocks, rounds 5..8, mode, tweak path in {never set, set_tweak, set_tweak(NULL) after a non-zero "
           "tweak, per-call}) through mantis_set_key / mantis_set_tweak / mantis_ecb_crypt / mantis_ecb_crypt_tweaked vs. "
           "the MANTIS-r specification model, plus the direct law crypt(stored t) == crypt_tweaked(t); non-trivial = some "
           "tweak is non-zero and the key is not the published one"),
     assumptions=MODEL_ASSUME + BUILD_ASSUME,
     technique="property-based testing (rapidcheck): random key/tweak/block/rounds/mode vs. independent MANTIS model",
     text=("Generated cases over all rounds, both modes and all four ways of supplying the tweak must equal an independent "
           "MANTIS-r model (checked against the four published vectors at start-up). Sampling, not proof."),
     note="trusts the MANTIS reference model (KAT-checked; cross-checked with a second model)",
     design_ref="DESIGN.md#c02")

prop("C04",
     units=lambda tier: [Unit("c04", "c04.cpp", SHIPPED, cases=scale(tier, 2500, 80000), shards=16)],
     level="exploration",
     rule=("stateful tweak histories: set_tweaked_key (incl. in-between lengths), set_tweak(bytes of length 1..bs | NULL), "
           "encrypt/decrypt on Skinny128/64TweakedKey_t, and ctr_set_tweaked_key / ctr_set_tweak / set_counter / encrypt on "
           "every CTR back end; oracle = specification cipher with the zero-padded latest tweak in TK1 and the domain bit, and "
           "the public tweak field == model tweak after every call; non-trivial = an encryption preceded by >= 2 tweak "
           "changes since keying, one of them short or NULL"),
     assumptions=MODEL_ASSUME + BUILD_ASSUME,
     technique="stateful property-based testing (rapidcheck): tweak-change histories vs. specification model",
     text=("Generated histories of tweak changes (full, short, NULL) on tweaked schedules and CTR objects must always behave "
           "as the specification cipher keyed with (key, latest tweak); history-dependence of the xor-out/xor-in update would "
           "show as a mismatch. Sampling of histories, not proof."),
     note="trusts the reference model and its reading of the tweak-domain constant (agrees with the Arduino port, C19)",
     design_ref="DESIGN.md#c04")


# ----------------------------------------------------------------------------- C06
prop("C06",
     units=lambda tier: [Unit("c06", "c06.cpp", SHIPPED, cases=scale(tier, 2500, 80000), shards=16)],
     level="exploration",
     rule=("unconstrained API histories (3-40 calls: init, valid and invalid key / tweaked-key / tweak / counter calls, data "
           "calls of all sizes, NULL arguments, cleanup, use after cleanup, re-init; parallel: multiples and non-multiples of "
           "the block size, swap_modes) on one CTR or parallel-ECB object, executed once per back end available for the kind "
           "(generic, vec128, vec256) with the back end pinned; oracle = every return value and every output byte equal across "
           "the twins (pure differential); non-trivial = a key/tweak change at a position that is not a batch multiple followed "
           "by data, or an invalid call between two data calls, or data with the post-init default counter"),
     assumptions=BUILD_ASSUME + ["host CPU offers SSE2 and AVX2 so all three back ends execute (the evidence lists which were exercised)"],
     technique="differential property-based testing (rapidcheck): identical generated API histories on back-end-pinned twin objects",
     text=("Pure differential search: identical generated call histories, including mid-stream key/tweak changes and invalid "
           "calls, run on twins pinned to each back end must agree in every return value and output byte. No model involved, so "
           "model errors cannot cause alarms. Sampling of histories, not proof."),
     note="trusts only the pin hook (can only lower the detected back end) and the executor",
     design_ref="DESIGN.md#c06")

# ----------------------------------------------------------------------------- generic entry points
def run(pid, tier, seed, replay):
    p = PROPS[pid]
    if "custom" in p:
        return p["custom"](pid, tier, seed, replay)
    units = p["units"](tier)
    if replay:
        return runner.replay_only(pid, units, replay)
    return runner.run_units(pid, units, tier, seed, p["level"], p["rule"], p["assumptions"],
                            known=known_for(pid), extra_cov=p.get("extra_cov"))


REGISTRY = {pid: run for pid in PROPS}


def harness_jobs():
    """(source, compiler, flags) of every harness translation unit used by any unit of any tier."""
    jobs = {}
    for pid, p in PROPS.items():
        if "units" not in p:
            continue
        for tier in ("quick", "thorough"):
            for u in p["units"](tier):
                if u.builder:
                    continue
                for h in u.harness:
                    ccomp = "gcc" if "g++" in u.cxx else "clang"
                    cxx = u.cxx if h.endswith(".cpp") else ccomp
                    jobs[(h, cxx, tuple(u.hflags))] = (h, cxx, list(u.hflags))
    return list(jobs.values())
