"""Registry of the checks: property id -> units, rule, level, manifest metadata."""
import os
import skv, runner
from skv import LibCfg
from runner import Unit

SHIPPED = LibCfg(name="shipped")   # gcc -O3 -std=c99, -msse2/-mavx2 per file, hooks compiled in but inert
# the scalar code has word-size / access / byte-order variants that the shipped x86-64 build never compiles; the
# conformance checks also run them (C12 compares configurations with each other, these compare them with the model)
W32_PORTABLE = LibCfg(name="w32-bytewise-neutral", defs=["SKINNY_VERIF_64BIT=0", "SKINNY_VERIF_UNALIGNED=0", "SKINNY_VERIF_LITTLE_ENDIAN=0",
                                                         "SKINNY_VERIF_VEC128_MATH=0", "SKINNY_VERIF_VEC256_MATH=0"])
W32_LE = LibCfg(name="w32", defs=["SKINNY_VERIF_64BIT=0"])
# 64-bit words with the byte-order-neutral helpers: what a 64-bit target that the header does not classify as little-endian compiles
W64_PORTABLE = LibCfg(name="w64-bytewise-neutral", defs=["SKINNY_VERIF_64BIT=1", "SKINNY_VERIF_UNALIGNED=0", "SKINNY_VERIF_LITTLE_ENDIAN=0",
                                                         "SKINNY_VERIF_VEC128_MATH=0", "SKINNY_VERIF_VEC256_MATH=0"])

CLANG_SHIPPED = LibCfg(name="clang-O3", cc="clang")      # same flags, other compiler: unspecified evaluation order, other code generation

def with_portable(name, src, tier, q, t, shards=16):
    return [Unit(name, src, SHIPPED, cases=scale(tier, q, t), shards=shards - 6),
            Unit(name + "-clang", src, CLANG_SHIPPED, cases=scale(tier, q, t), shards=2 if tier == "quick" else 8),
            Unit(name + "-w32", src, W32_LE, cases=scale(tier, q, t), shards=2 if tier == "quick" else 8),
            Unit(name + "-w32-portable", src, W32_PORTABLE, cases=scale(tier, q, t), shards=2 if tier == "quick" else 8),
            Unit(name + "-w64-portable", src, W64_PORTABLE, cases=scale(tier, q, t), shards=2 if tier == "quick" else 8)]

MODEL_ASSUME = [
    "reference models in harness/ref.hpp are correct transcriptions of the SKINNY / MANTIS specifications "
    "(self-tested on the ten published vectors and the inverse law at every start; cross-checked against the "
    "independent Python models drafts/refmodel.py by bin/setup)",
]
BUILD_ASSUME = [
    "library compiled from /repo's working tree with the shipped flags (gcc -O3 -std=c99, -msse2/-mavx2 per file) "
    "plus -DSKINNY_C_VERIF; back ends pinned through the _skinny_verif_vec_limit hook, which can only lower what "
    "the CPU probe reports",
]


def scale(tier, quick, thorough):
    n = quick if tier == "quick" else thorough
    f = float(os.environ.get("VERIF_SCALE", "1") or "1")     # only used by the mutation campaigns to trade depth for breadth
    return max(20, int(n * f))


def known_for(pid):
    return [k for k in skv.known_findings() if k["property"] == pid]


PROPS = {}


def prop(pid, **kw):
    PROPS[pid] = kw

# generator features shared by every harness built on prog/exec/gens (appended to the rule of each such property)
GEN_NOTE = (". Shared generator features: byte strings are uniform, pseudo-random from a seed, 1-3 set bits, one repeated byte, counting, "
            "high-bit-set, word-structured (each aligned 2/4/8-byte word all-zero, all-one, a repeat of the previous word or random) or extreme "
            "(00..00 / ff..ff with at most one byte disturbed); values of one argument class recur in another (tweak == key prefix, counter == tweak); "
            "block arrays are unrelated, constant, big-endian ramps, a base with a few entries replaced, or two values in runs; the caller's object sits "
            "at any multiple of 8 from a 64-byte boundary (ao) and, for the functions that take it as pointer-to-const, 12 % of the time in pages that "
            "are read-only during the call (ro); rare storms of 255..65537 consecutive setter calls (rep).")


# ----------------------------------------------------------------------------- C05
def c05_post(cov):
    cl = cov.get("classes", {})
    hit = {k[5:]: v for k, v in cl.items() if k.startswith("cell/")}
    want = set()
    for kb, bes in (("c128", (0, 128, 256)), ("c128t", (0, 128, 256)), ("c64", (0, 128)), ("c64t", (0, 128)), ("cm", (0, 128))):
        for be in bes:
            for c in ("default-counter", "short-counter", "null-counter", "carry>=2bytes", "wrap-around", "zero-length-call", "in-place", "odd-placement", "stream>256B", "with-bystander-objects") + (("ragged-batch-crossing",) if be else ()):
                want.add("%s/be%d/%s" % (kb, be, c))
    cov["stream_class_matrix"] = dict(rule="cell = cipher flavour / back end / class of stream (classes as in `classes`)", cells_expected=len(want),
                                      cells_hit=len(want & set(hit)), cells_never_generated=sorted(want - set(hit)), thinnest_cells=sorted((v, k) for k, v in hit.items() if k in want)[:6])

prop("C05",
     post_cov=c05_post,
     fuzz=dict(prop=5, workers=8, seconds=120),
     units=lambda tier: [Unit("c05", "c05.cpp", SHIPPED, cases=scale(tier, 30000, 500000), shards=14),
                         Unit("c05-clang", "c05.cpp", CLANG_SHIPPED, cases=scale(tier, 30000, 500000), shards=2 if tier == "quick" else 8),
                         # requests of >= 65281 blocks in one call plus a continuation (thorough: also > 4 GiB)
                         Unit("c05-big", "big.cpp", SHIPPED, cases=scale(tier, 40, 120), shards=8 if tier == "quick" else 4,
                              args=["--family", "ctr"] + (["--huge", "1"] if tier == "thorough" else []), timeout=6000)],
     level="exploration",
     rule=("structured CTR programs (init; optional early set_counter; key/tweak set-up; 1-3 segments of "
           "[set_counter]? chunk*) for Skinny-128/64 plain and tweaked and Mantis-5..8 on every back end, compared "
           "byte for byte with in xor E(c+i) from the specification model, plus re-application restoring the input; "
           "a case is non-trivial if its stream crosses a vector-batch boundary at a ragged cut, or a carry runs "
           "through >= 2 counter bytes, or the counter wraps, or the post-init default / a short / a NULL counter is "
           "used; distinct = distinct serialised programs among those. A second harness (unit c05-big) issues single calls of "
           ">= 65281 blocks (512 KiB and more; in the thorough tier also more than 4 GiB) followed by a continuation call, on every "
           "back end, and checks sampled blocks (first / last, around every power of two in blocks and bytes, around the call "
           "boundary, 1500 pseudo-random ones) against E(c + i) computed with the single-block functions. 15 % of the programs weave one to three "
           "bystander objects of the same kind (own init / keying / data / cleanup in any order, ops marked by=1) around the stream under test; 2 % "
           "are dribbles of 256-600 calls of 0-5 bytes on one stream" + GEN_NOTE),
     assumptions=MODEL_ASSUME + BUILD_ASSUME,
     technique="property-based testing (rapidcheck): generated CTR call programs vs. specification model, shrinking to a replay file",
     text=("Generated-input search: every generated CTR program must reproduce in xor E(c+i) of an independent "
           "specification model on every back end; counters, lengths and cuts are biased towards carries, wrap-around, "
           "short/NULL/default counters and ragged batch boundaries. Sampling, not proof: 2^128+ inputs cannot be enumerated."),
     note="trusts the reference model (KAT-checked, cross-checked with a second model) and the back-end pin hook",
     design_ref="DESIGN.md#c05")



# ----------------------------------------------------------------------------- C01 C02 C04
prop("C01",
     units=lambda tier: with_portable("c01", "c01.cpp", tier, 60000, 1200000),
     level="exploration",
     rule=("(variant, key of a primary size, 1-4 blocks, direction, buffer placement incl. overlap) through "
           "skinnyN_set_key + skinnyN_ecb_encrypt/decrypt, compared with the table-driven specification model; keys and "
           "blocks from a mixture of uniform / sparse / constant / counting / high-bit byte strings; non-trivial = key is "
           "neither all-zero nor one of the six published vectors; distinct = distinct serialised cases" + GEN_NOTE),
     assumptions=MODEL_ASSUME + BUILD_ASSUME + ["besides the shipped build, a clang -O3 build and two builds of the scalar variants (32-bit words; 32-bit words + byte-wise access + byte-order-neutral code, SIMD off) are run against the model; the full configuration matrix is C12's job"],
     technique="property-based testing (rapidcheck): random keys/blocks vs. independent specification model",
     text=("Generated (key, block, variant, direction) cases must equal an independent table-driven SKINNY model that is "
           "itself checked against the six published vectors at start-up. Sampling of a 2^128..2^512 input space; "
           "straight-line code without data-dependent branches, so structured sampling is the honest level."),
     note="trusts the reference model (KAT-checked; cross-checked with a second, Python model)",
     design_ref="DESIGN.md#c01")

prop("C02",
     units=lambda tier: with_portable("c02", "c02.cpp", tier, 80000, 1500000),
     level="exploration",
     rule=("(key, tweak, blocks, rounds 5..8, mode, tweak path in {never set, set_tweak, set_tweak(NULL) after a non-zero "
           "tweak, per-call}, over one or two keyings of the same schedule (re-key over a stored non-zero tweak, same or another "
           "round count)) through mantis_set_key / mantis_set_tweak / mantis_ecb_crypt / mantis_ecb_crypt_tweaked vs. "
           "the MANTIS-r specification model, plus the direct law crypt(stored t) == crypt_tweaked(t); non-trivial = some "
           "tweak is non-zero and the key is not the published one" + GEN_NOTE),
     assumptions=MODEL_ASSUME + BUILD_ASSUME,
     technique="property-based testing (rapidcheck): random key/tweak/block/rounds/mode vs. independent MANTIS model",
     text=("Generated cases over all rounds, both modes and all four ways of supplying the tweak must equal an independent "
           "MANTIS-r model (checked against the four published vectors at start-up). Sampling, not proof."),
     note="trusts the MANTIS reference model (KAT-checked; cross-checked with a second model)",
     design_ref="DESIGN.md#c02")

prop("C04",
     units=lambda tier: with_portable("c04", "c04.cpp", tier, 40000, 600000),
     level="exploration",
     rule=("stateful tweak histories: set_tweaked_key (incl. in-between lengths), set_tweak(bytes of length 1..bs | NULL), "
           "encrypt/decrypt on Skinny128/64TweakedKey_t, and ctr_set_tweaked_key / ctr_set_tweak / set_counter / encrypt on "
           "every CTR back end; oracle = specification cipher with the zero-padded latest tweak in TK1 and the domain bit, and "
           "the public tweak field == model tweak after every call; non-trivial = an encryption preceded by >= 2 tweak "
           "changes since keying, one of them short or NULL" + GEN_NOTE),
     assumptions=MODEL_ASSUME + BUILD_ASSUME,
     technique="stateful property-based testing (rapidcheck): tweak-change histories vs. specification model",
     text=("Generated histories of tweak changes (full, short, NULL) on tweaked schedules and CTR objects must always behave "
           "as the specification cipher keyed with (key, latest tweak); history-dependence of the xor-out/xor-in update would "
           "show as a mismatch. Sampling of histories, not proof."),
     note="trusts the reference model and its reading of the tweak-domain constant (agrees with the Arduino port, C19)",
     design_ref="DESIGN.md#c04")


# ----------------------------------------------------------------------------- C06
prop("C06",
     fuzz=dict(prop=6, workers=8, seconds=120),
     # thorough: also single CTR / parallel requests of >= 65281 blocks and of more than 4 GiB on every back end, each sampled against
     # the back-end-free single-block functions (big.cpp): agreement with one reference is agreement with each other
     units=lambda tier: [Unit("c06", "c06.cpp", SHIPPED, cases=scale(tier, 30000, 500000), shards=16)] +
                        ([Unit("c06-big-par", "big.cpp", SHIPPED, cases=120, shards=4, args=["--family", "par", "--huge", "1"], timeout=6000),
                          Unit("c06-big-ctr", "big.cpp", SHIPPED, cases=120, shards=4, args=["--family", "ctr", "--huge", "1"], timeout=6000)] if tier == "thorough" else []),
     level="exploration",
     rule=("unconstrained API histories (3-40 calls: init, valid and invalid key / tweaked-key / tweak / counter calls, data "
           "calls of all sizes, NULL arguments, cleanup, use after cleanup, re-init; parallel: multiples and non-multiples of "
           "the block size, swap_modes) on one CTR or parallel-ECB object, executed once per back end available for the kind "
           "(generic, vec128, vec256) with the back end pinned; oracle = every return value and every output byte equal across "
           "the twins (pure differential); non-trivial = a key/tweak change at a position that is not a batch multiple followed "
           "by data, or an invalid call between two data calls, or data with the post-init default counter" + GEN_NOTE),
     assumptions=BUILD_ASSUME + ["host CPU offers SSE2 and AVX2 so all three back ends execute (the evidence lists which were exercised)"],
     technique="differential property-based testing (rapidcheck): identical generated API histories on back-end-pinned twin objects",
     text=("Pure differential search: identical generated call histories, including mid-stream key/tweak changes and invalid "
           "calls, run on twins pinned to each back end must agree in every return value and output byte. No model involved, so "
           "model errors cannot cause alarms. Sampling of histories, not proof."),
     note="trusts only the pin hook (can only lower the detected back end) and the executor",
     design_ref="DESIGN.md#c06")


# ----------------------------------------------------------------------------- C14
ASAN_FLAGS = ["-fsanitize=address,undefined", "-fno-sanitize=alignment", "-fno-sanitize-recover=undefined", "-fno-omit-frame-pointer", "-g"]
ASAN = LibCfg(name="asan", cc="gcc", opt="-O1", cflags=ASAN_FLAGS)
ASAN_ENV = {"ASAN_OPTIONS": "detect_leaks=0:abort_on_error=0:allocator_may_return_null=1:handle_abort=0", "UBSAN_OPTIONS": "print_stacktrace=1"}

def asan_unit(name, harness, cases, args=(), shards=16, **kw):
    return Unit(name, harness, ASAN, cases=cases, shards=shards, link_flags=["-fsanitize=address,undefined"], env=ASAN_ENV, args=list(args), **kw)

def c14_cells():
    """The statement's matrix: public function x class of invalid argument x object state, as classified by c14.cpp."""
    cells = set()
    for kind in ("c128", "c64", "cm"):
        mant = kind == "cm"
        fns = ["init", "cleanup", "set_key", "set_tweak", "set_counter", "encrypt"] + ([] if mant else ["set_tweaked_key"])
        for fn in fns:
            cells.add("%s.%s/null-object" % (kind, fn))
        for state in ("fresh", "keyed", "midstream"):
            for fn in ["set_key"] + ([] if mant else ["set_tweaked_key"]):
                for c in ("null-key", "bad-len", "bad-len-huge"):
                    cells.add("%s.%s/%s@%s" % (kind, fn, c, state))
            if mant:
                for c in ("bad-rounds", "bad-rounds-huge"):
                    cells.add("%s.set_key/%s@%s" % (kind, c, state))
            for fn in ("set_tweak", "set_counter"):
                for c in ("bad-len", "bad-len-huge", "bad-len+null", "bad-len-huge+null"):
                    cells.add("%s.%s/%s@%s" % (kind, fn, c, state))
            for c in ("null-in", "null-out", "null-in+out"):
                cells.add("%s.encrypt/%s@%s" % (kind, c, state))
        for state in ("zeroed", "failed", "cleaned"):
            for fn in ["set_key", "set_tweak", "set_counter", "encrypt"] + ([] if mant else ["set_tweaked_key"]):
                cells.add("%s.%s/args-ok@%s" % (kind, fn, state))
    for kind in ("p128", "p64", "pm"):
        mant = kind == "pm"
        data = ["crypt"] if mant else ["enc", "dec"]
        for fn in ["init", "cleanup", "set_key", data[0]]:
            cells.add("%s.%s/null-object" % (kind, fn))
        for state in ("fresh", "keyed"):
            for c in ("null-key", "bad-len", "bad-len-huge") + (("bad-rounds", "bad-rounds-huge") if mant else ()):
                cells.add("%s.set_key/%s@%s" % (kind, c, state))
        for fn in data:
            cells.add("%s.%s/ragged@keyed" % (kind, fn))
        for state in ("zeroed", "failed", "cleaned"):
            for fn in ["set_key"] + data + (["swap"] if mant else []):
                cells.add("%s.%s/args-ok@%s" % (kind, fn, state))
    for kind in ("k128", "k64", "t128", "t64", "mk"):
        kf = "set_tweaked_key" if kind[0] == "t" else "set_key"
        cells.add("%s.%s/null-object" % (kind, kf))
        if kind != "k128" and kind != "k64":
            cells.add("%s.set_tweak/null-object" % kind)
        for state in ("unkeyed", "keyed"):
            for c in ("null-key", "bad-len", "bad-len-huge") + (("bad-rounds", "bad-rounds-huge") if kind == "mk" else ()):
                cells.add("%s.%s/%s@%s" % (kind, kf, c, state))
            if kind[0] == "t" or kind == "mk":
                for c in ("bad-len", "bad-len-huge") + (("bad-len+null", "bad-len-huge+null") if kind[0] == "t" else ()):
                    cells.add("%s.set_tweak/%s@%s" % (kind, c, state))
    return cells

def c14_post(cov):
    cl = cov.get("classes", {})
    want = c14_cells()
    hit = {k[5:]: v for k, v in cl.items() if k.startswith("cell/")}
    never = sorted(want - set(hit))
    cov["invalid_call_matrix"] = dict(
        rule="cell = public function / class of invalid argument @ object state at the time of the call (state derived from the library's own "
             "return values); expected cells are those the statement of C14 names",
        cells_expected=len(want), cells_hit=len(want & set(hit)), cells_never_generated=never[:60],
        thinnest_cells=sorted(((v, k) for k, v in hit.items() if k in want))[:8],
        other_cells_generated=len(set(hit) - want))

prop("C14",
     post_cov=c14_post,
     fuzz=dict(prop=14, workers=8, seconds=120),
     units=lambda tier: [Unit("c14", ["c14.cpp", "mon_alloc.c"], LibCfg(name="shipped+allocmon", alloc_redirect=True), cases=scale(tier, 20000, 200000), shards=12),
                         Unit("c14-asan", ["c14.cpp", "mon_alloc.c"], LibCfg(name="asan+allocmon", cc="gcc", opt="-O1", cflags=ASAN_FLAGS, alloc_redirect=True),
                              cases=scale(tier, 3000, 80000), shards=4 if tier == "quick" else 16, link_flags=["-fsanitize=address,undefined"], env=ASAN_ENV, args=["--heap", "1"])],
     level="exploration",
     rule=("histories on one object (CTR / parallel-ECB of each cipher on each back end; caller-owned Skinny / tweaked / Mantis "
           "schedules) with invalid calls injected at random positions: NULL object, NULL key, key length in {0, bs-1, max+1, "
           "huge}, tweak length {0, bs+1, huge} / Mantis != 8, counter length > bs, Mantis rounds outside 5..8, ragged byte counts "
           "(parallel), NULL data pointers (CTR, also with size 0), any call on a zeroed, cleaned-up or failed-to-initialise object (12 % "
           "of the init calls run with their allocation failing, through the allocator monitor); oracles: injected "
           "call returns 0 and leaves output buffer and schedule image untouched, every other record equals the twin history "
           "without injections, API model agrees (valid calls return 1), guard zones / ASan silent; non-trivial = an injected "
           "call is followed by an output-producing valid call; coverage.invalid_call_matrix accounts for the statement's matrix: every "
           "injected call is classified as function / class of invalid argument @ object state (zeroed, failed, fresh, keyed, "
           "midstream, cleaned; from the library's own return values) and the 340 cells the statement names are reported as hit / never generated" + GEN_NOTE),
     assumptions=MODEL_ASSUME + BUILD_ASSUME + ["second unit: gcc -O1 ASan+UBSan build (alignment check off: SKINNY_UNALIGNED is the documented assumption on x86) with every buffer in its own heap block"],
     technique="stateful property-based testing (rapidcheck) with fault-injected calls: twin differential + API model + ASan",
     text=("Generated valid histories with injected invalid calls; the injected call must return 0 and be unobservable afterwards "
           "(twin without the call behaves identically, schedule image unchanged, canaries and ASan silent). Sampling of "
           "(function x invalid class x object state) cells, listed in the evidence, not proof."),
     note="trusts the executor's guard zones / ASan for 'touches no memory it was not given'",
     design_ref="DESIGN.md#c14")


# ----------------------------------------------------------------------------- C15 C16 C17 (allocator monitor)
SHIPPED_MON = LibCfg(name="shipped+allocmon", alloc_redirect=True)
ASAN_MON = LibCfg(name="asan+allocmon", cc="gcc", opt="-O1", cflags=ASAN_FLAGS, alloc_redirect=True)
MON_ASSUME = ["the library objects' calloc/malloc/free/realloc are redirected with objcopy to the allocator monitor "
              "(harness/mon_alloc.c); harness and rapidcheck allocations are not counted"]

def mon_units(name, src, tier, q, t, asan_share=0.3, args=()):
    return [Unit(name, [src, "mon_alloc.c"], SHIPPED_MON, cases=scale(tier, q, t), shards=12, args=list(args)),
            Unit(name + "-asan", [src, "mon_alloc.c"], ASAN_MON, cases=scale(tier, int(q * asan_share), int(t * asan_share)),
                 shards=4 if tier == "quick" else 16, link_flags=["-fsanitize=address,undefined"], env=ASAN_ENV, args=list(args))]

def c15_post(cov):
    cl = cov.get("classes", {})
    tr = {k[6:]: v for k, v in cl.items() if k.startswith("trans/")}
    want = set()
    for kind, caps in (("c128", (0, 128, 256)), ("c64", (0, 128)), ("cm", (0, 128)), ("p128", (0, 128, 256)), ("p64", (0, 128)), ("pm", (0, 128))):
        ctr = kind[0] == "c"
        calls = ["cleanup", "data", "set_key"] + (["set_counter", "set_tweak"] if ctr else []) + (["set_tweaked_key"] if kind in ("c128", "c64") else []) + (["swap"] if kind == "pm" else [])
        for c in calls:
            want.add("%s/zeroed->%s" % (kind, c))
        for cap in caps:
            o = "%s@cap%d" % (kind, cap)
            for st in ("zeroed", "garbage", "cleaned", "failed"):
                want.add("%s/%s->init" % (o, st))
            for st in ("fresh", "keyed", "cleaned", "failed"):
                for c in calls:
                    if c == "swap" and st == "fresh":
                        continue
                    want.add("%s/%s->%s" % (o, st, c))
    cov["life_cycle_matrix"] = dict(
        rule="cell = object kind @ requested back end / state of the object -> call made on it (states from the library's own return values: zeroed, "
             "garbage, fresh, keyed, cleaned, failed); expected = every call the API allows in that state (init of a live object and calls on garbage are caller misuse)",
        cells_expected=len(want), cells_hit=len(want & set(tr)), cells_never_generated=sorted(want - set(tr))[:40],
        thinnest_cells=sorted((v, k) for k, v in tr.items() if k in want)[:6])

prop("C15",
     post_cov=c15_post,
     fuzz=dict(prop=15, workers=8, seconds=120),
     units=lambda tier: mon_units("c15", "c15.cpp", tier, 15000, 120000),
     level="exploration",
     rule=("multi-object life-cycle histories (1-6 slots of the six object kinds on every back end, 4-60 calls): init, key / "
           "tweak / counter set-up, processing, init calls whose allocation fails (12 %), cleanup, repeated cleanup, cleanup of NULL and of a zeroed never-initialised "
           "object, any call after cleanup, re-init and reuse; after every call the allocator monitor's live set must equal the "
           "set of initialised, not yet cleaned objects (one block each), no double / foreign free, calls after cleanup return "
           "0 (API model), nothing live at the end; non-trivial = history has a re-init after cleanup, a use after cleanup and "
           ">= 2 objects live at once; shapes: ordinary (1-6 objects, 4-60 calls), crowd (7-24 objects, mostly one kind, 30-200 calls), churn (one or two objects through 40-300 init/cleanup cycles)" + GEN_NOTE),
     assumptions=MODEL_ASSUME + BUILD_ASSUME + MON_ASSUME + ["init of an already live object is caller misuse and is not generated"],
     technique="stateful (model-based) property testing with rapidcheck + allocator monitor invariant after every step + ASan",
     text=("Generated multi-object life-cycle histories with an invariant checked after every step (allocator live set == "
           "model live set, no double/foreign free, inert after cleanup); ASan build catches touching freed memory. "
           "Sampling of histories, not proof."),
     note="trusts the allocator monitor and ASan",
     design_ref="DESIGN.md#c15")

prop("C16",
     units=lambda tier: mon_units("c16", "c16.cpp", tier, 8000, 150000),
     level="fault_enumeration",
     rule=("fault enumeration: each of the six init functions x each back end (pin) x each allocation request it makes (request "
           "1 is the only one today; request 2 is also tried and must report 'nothing injected') x prior content of the "
           "caller's object in {zeros, 0xFF, garbage fill, stale image of a previously used and cleaned object, handle fields "
           "pointing at harness-owned canary memory}; after the failed init every other API function is applied (must return 0, "
           "produce no output, free / write nothing foreign, canary intact), then a successful init must work normally; "
           "non-trivial = a failure was actually injected; distinct = distinct (site, prior content, key/data) cases; the probes of the inert object come in every size class (0 bytes, 1 byte, one block, several blocks, ragged)" + GEN_NOTE),
     assumptions=MODEL_ASSUME + BUILD_ASSUME + MON_ASSUME,
     extra_cov={"exhaustive_dimension": "init function x back end x allocation request (see classes site/*); prior contents and key/data sampled"},
     technique="fault injection enumerated over allocation sites (allocator monitor) with generated prior object contents (rapidcheck)",
     text=("Every allocation request of every init function on every back end is failed in turn, for five classes of prior "
           "content of the caller's object; the object must be inert afterwards. The site dimension is small and fully covered "
           "in every run; the prior-content dimension is sampled."),
     note="trusts the allocator monitor's failure injection",
     design_ref="DESIGN.md#c16")

prop("C17",
     units=lambda tier: [Unit("c17", ["c17.cpp", "mon_alloc.c"], SHIPPED_MON, cases=scale(tier, 20000, 400000), shards=12 if tier == "quick" else 16),
                         # whether a wipe before free() survives is the compiler's decision under the flags in force: also the library
                         # exactly as the repository's Makefile builds it, and a clang -O3 build
                         Unit("c17-make", ["c17.cpp", "mon_alloc.c"], LibCfg(name="as-built-by-make+allocmon", make=True, alloc_redirect=True), cases=scale(tier, 20000, 400000), shards=2 if tier == "quick" else 8),
                         Unit("c17-clang", ["c17.cpp", "mon_alloc.c"], LibCfg(name="clang-O3+allocmon", cc="clang", alloc_redirect=True), cases=scale(tier, 20000, 400000), shards=2 if tier == "quick" else 8)],
     level="exploration",
     rule=("histories that key an object, process data (leaving a partially consumed keystream batch) and end in cleanup, for "
           "every CTR / parallel-ECB kind and back end; at every free() made by the library the monitor inspects the whole "
           "block as requested from the allocator (for skinny_calloc blocks including alignment slack and base pointer): every "
           "byte must be zero; non-trivial = the block held >= 64 non-zero bytes just before the cleanup call; 8 % of the histories keep a crowd of 2-20 further live objects (any kind) around the object under test and clean them up in a generated order afterwards - every block of every object is inspected" + GEN_NOTE),
     assumptions=BUILD_ASSUME + MON_ASSUME + ["library built with the shipped flags (-O3), so a wipe the optimiser removes as a dead store would be seen"],
     technique="property-based testing (rapidcheck) with an allocator monitor inspecting every block at the moment of free()",
     text=("Generated keyed-and-used histories ending in cleanup; the monitor checks all bytes of each block at the instant the "
           "library hands it to free(). Covers every kind x back end (context layouts differ). Sampling of histories."),
     note="trusts the allocator monitor; inspects the shipped -O3 build",
     design_ref="DESIGN.md#c17")


# ----------------------------------------------------------------------------- C03 C07 C10
prop("C03",
     # thorough: also single parallel requests of >= 65281 blocks and of more than 4 GiB, both directions, every back end, sampled
     # against the single-block functions of the same direction (big.cpp; the unit C07 runs in both tiers)
     units=lambda tier: with_portable("c03", "c03.cpp", tier, 40000, 600000) +
                        ([Unit("c03-big", "big.cpp", SHIPPED, cases=120, shards=4, args=["--family", "par", "--huge", "1"], timeout=6000)] if tier == "thorough" else []),
     level="exploration",
     rule=("three generators: (a) single-block round trips D(E(x)) = x and E(D(x)) = x on all six SKINNY variants, the four "
           "tweakable ones (after 0-2 tweak changes) and Mantis, incl. overlapping buffers; (b) parallel round trips for 0..29 "
           "blocks on every back end, in place and out of place; (c) Mantis mode machine on a schedule or a parallel object: "
           "set_key / set_tweak(bytes|NULL) / swap_modes / crypt / crypt_tweaked / parallel crypt, checked against the model "
           "for the current mode, against swap-crypt-swap being the inverse, and (schedule image) against a schedule keyed "
           "afresh in the current mode with the tweak re-applied; non-trivial = (a) any random key/block, (b) block count above "
           "and not a multiple of the vector batch, (c) a swap after a tweak change followed by a crypt" + GEN_NOTE),
     assumptions=MODEL_ASSUME + BUILD_ASSUME + ["image comparison covers k0, k0', k1, tweak and rounds of MantisKey_t (trailing padding excluded)"],
     technique="property-based testing (rapidcheck): round-trip laws (library vs library) + stateful Mantis mode machine vs model and struct image",
     text=("Round-trip laws need no model: the inverse entry point must restore the input for generated keys, tweaks, blocks, "
           "block counts and back ends. The Mantis mode machine is a stateful generated history with three oracles (model, "
           "self-inverse under swap, struct image == fresh keying). Sampling, not proof."),
     note="round trips trust nothing but the executor; the mode machine additionally trusts the MANTIS model",
     design_ref="DESIGN.md#c03")

prop("C07",
     units=lambda tier: [Unit("c07", "c07.cpp", SHIPPED, cases=scale(tier, 40000, 600000), shards=16),
                         Unit("c07-big", "big.cpp", SHIPPED, cases=scale(tier, 40, 120), shards=8 if tier == "quick" else 4,
                              args=["--family", "par"] + (["--huge", "1"] if tier == "thorough" else []), timeout=6000)],
     level="exploration",
     rule=("(cipher, key incl. in-between lengths / Mantis rounds and mode, back end, 1-3 calls with a block count drawn from "
           "0..40, data, Mantis tweak array, in place or not, buffer offsets); oracle = the library's single-block functions "
           "block by block under a schedule keyed with the plain set_key (Mantis: block i under tweak i), plus the API model; "
           "the advertised parallel size must be a positive multiple of the block size; the evidence lists how often each block "
           "count 0..40 was generated (the count dimension is covered completely when every 'blocks=n' class is non-zero); "
           "non-trivial = a count above and not a multiple of the back end's batch; 1 in 9 requests has 41..200 blocks and the object is "
           "sometimes re-keyed with a related key; a second harness (unit c07-big) issues single requests of >= 65281 blocks (thorough "
           "tier: also more than 4 GiB) and checks sampled blocks against the single-block functions; a quarter of the programs weave one to three bystander parallel objects of the same kind (own init / keying / data / cleanup / re-init in any order, ops marked by=1) around the object under test" + GEN_NOTE),
     assumptions=BUILD_ASSUME + ["single-block functions are tied to the specification by C01/C02"],
     technique="differential property-based testing (rapidcheck): parallel entry points vs the library's own single-block functions",
     text=("Generated parallel calls for every block count 0..40 on every back end must equal the single-block functions block "
           "by block. Both loops (vector batches and the scalar remainder) are exercised; sampling over keys and data."),
     note="differential within the library; the model is only a second opinion",
     design_ref="DESIGN.md#c07")

def c10_post(cov):
    cl = cov.get("classes", {})
    missing = [n for fam, top in (("skinny128", 64), ("skinny64", 40), ("mantis", 40)) for n in range(top + 1)
               if ("%s/len=%d" % (fam, n)) not in cl]
    cov["length_dimension_complete"] = not missing
    cov["lengths_not_generated"] = missing[:20]

prop("C10",
     units=lambda tier: [Unit("c10", "c10.cpp", SHIPPED, cases=scale(tier, 40000, 600000), shards=10),
                         Unit("c10-clang", "c10.cpp", CLANG_SHIPPED, cases=scale(tier, 40000, 600000), shards=2 if tier == "quick" else 8),
                         asan_unit("c10-asan", "c10.cpp", scale(tier, 6000, 100000), args=["--heap", "1"], shards=4 if tier == "quick" else 16)],
     level="exploration",
     post_cov=c10_post,
     rule=("key length drawn from 0..3*bs+16 (Mantis 0..40) or a huge value (2^31-1, 2^31, 2^32-1, 0x10000+bs, ...) x entry point "
           "in {set_key, set_tweaked_key, ctr_set_key, ctr_set_tweaked_key, parallel_ecb_set_key} x {Skinny-128, Skinny-64}, "
           "Mantis {set_key, ctr_set_key, parallel_ecb_set_key} x rounds 0..12 and huge, x object state {fresh, previously "
           "keyed} x random key bytes; the key buffer holds exactly min(len, max) bytes; oracles: accepted iff documented (API "
           "model), accepted == same bytes zero-padded to the next primary size (library vs library: image, keystream, "
           "blocks) and == specification model, rejected => 0, schedule image and later behaviour unchanged; non-trivial = "
           "length strictly between primary sizes or rejected; 'length_dimension_complete' reports whether every small length "
           "was generated in this run" + GEN_NOTE),
     assumptions=MODEL_ASSUME + BUILD_ASSUME + ["second unit: ASan build with exact-size heap key buffers, so reading a rejected huge length faults"],
     technique="property-based testing (rapidcheck) with the length dimension swept: API model + zero-padding metamorphic relation + ASan",
     text=("Every small key length and a set of huge ones, through every key-setting entry point, is checked for accept/reject, "
           "zero-padding equivalence and leave-untouched-on-reject. The length dimension is swept in every run (reported), key "
           "bytes are sampled."),
     note="trusts the model for accept/reject and padding; the library-vs-library padding relation is independent of it",
     design_ref="DESIGN.md#c10")


# ----------------------------------------------------------------------------- C08 (memcheck taint monitor)
VG = ["valgrind", "--tool=memcheck", "-q", "--error-limit=no", "--leak-check=no", "--undef-value-errors=yes",
      "--error-exitcode=0", "--num-callers=12", "--read-var-info=no", "--partial-loads-ok=yes"]
W32 = LibCfg(name="shipped-32bit-words", defs=["SKINNY_VERIF_64BIT=0"])
NOSIMD = LibCfg(name="no-simd", defs=["SKINNY_VERIF_VEC128_MATH=0", "SKINNY_VERIF_VEC256_MATH=0"])
NOVEC256 = LibCfg(name="no-vec256", vec256="")
CLANG_O3 = LibCfg(name="clang-O3", cc="clang")

def c08_units(tier):
    u = [Unit("c08", "c08.cpp", SHIPPED, cases=scale(tier, 900, 12000), shards=12 if tier == "quick" else 16, wrapper=VG, timeout=6000),
         Unit("c08-w32", "c08.cpp", W32, cases=scale(tier, 500, 6000), shards=2 if tier == "quick" else 8, wrapper=VG, timeout=3000),
         Unit("c08-novec256", "c08.cpp", NOVEC256, cases=scale(tier, 500, 6000), shards=2 if tier == "quick" else 8, wrapper=VG, timeout=3000)]
    # ... and the binary exactly as the repository's Makefile builds it
    u.append(Unit("c08-make", "c08.cpp", LibCfg(name="as-built-by-make", make=True), cases=scale(tier, 500, 6000), shards=2 if tier == "quick" else 8, wrapper=VG, timeout=3000))
    if tier == "thorough":
        u += [Unit("c08-nosimd", "c08.cpp", NOSIMD, cases=6000, shards=8, wrapper=VG, timeout=6000),
              Unit("c08-w32-portable", "c08.cpp", W32_PORTABLE, cases=6000, shards=8, wrapper=VG, timeout=6000),
              Unit("c08-clang", "c08.cpp", CLANG_O3, cases=6000, shards=8, wrapper=VG, timeout=6000)]
    return u


# C08 cross-check (thorough tier): lackey trace equality for two secret sets on a sample of public programs
def c08_tracediff(pid, tier, seed, work, units):
    if tier != "thorough":
        return [], None
    import tracediff, subprocess
    exe = tracediff.build(work, SHIPPED)
    cdir = skv._mk(os.path.join(work, "trace-corpus"))
    u = units[0]
    env = dict(os.environ, **u.env); env["RC_PARAMS"] = "seed=%d max_success=40 max_size=60" % (seed * 1000 + 555)
    subprocess.run(u.cmd("gen", "--corpus", cdir, "--corpus-n", "40", "--dumponly", "1"), env=env, stdout=subprocess.PIPE, stderr=subprocess.STDOUT, timeout=1200)
    progs = sorted(os.listdir(cdir))[:32]
    from concurrent.futures import ThreadPoolExecutor
    def one(f):
        w = skv._mk(os.path.join(work, "tr-" + f))
        return f, tracediff.differs(exe, os.path.join(cdir, f), w)
    viol = []; events = 0
    with ThreadPoolExecutor(8) as ex:
        for f, (msg, n) in ex.map(one, progs):
            events += n
            if msg and len(viol) < 3:
                rp = runner.save_replay(pid, open(os.path.join(cdir, f)).read())
                viol.append((rp, "lackey-trace-diff", msg))
    return viol, {"lackey_trace_diff": dict(programs=len(progs), trace_events_compared=events,
                                            rule="same public program, four secret sets (all 0x00, all 0xff, two pseudo-random), instruction and data address traces between markers around every library call must be identical")}

def c08_trace_replay(path, work):
    import tracediff
    exe = tracediff.build(work, SHIPPED)
    msg, n = tracediff.differs(exe, path, work)
    return msg

prop("C08",
     extra=c08_tracediff, extra_replay=c08_trace_replay,
     units=c08_units,
     level="exploration",
     rule=("generated public-parameter programs (cipher, key length incl. in-between, Mantis rounds / mode, back end, op sequence: "
           "key / tweaked-key / tweak / counter set-up, single blocks, CTR chunking, parallel block counts, mid-stream changes, "
           "buffer placements) executed inside valgrind/memcheck with every key, tweak, counter, data and tweak-array buffer "
           "marked undefined before each call; violation = any memcheck report (conditional jump / address depends on "
           "uninitialised value) inside a library call, or a secret-dependent return value; positive controls (leaky table "
           "look-up, leaky branch) and a negative control run at every start; non-trivial = at least one data-processing call "
           "with >= 1 block of poisoned data on a keyed object; distinct = distinct *public* programs (secret values removed)"),
     assumptions=["valgrind 3.19 memcheck's bit-precise definedness propagation is sound for the instructions used (SSE2/AVX2 included); "
                  "cmov/setcc-style data-flow uses of flags would be reported too (none occur)",
                  "binary under test: library objects exactly as the shipped flags build them (gcc -O3 -std=c99 -msse2/-mavx2; hooks compiled in "
                  "but inert), plus the VEC256-less build and the 32-bit-word override; thorough adds SIMD-less and clang -O3",
                  "micro-architectural timing (variable-latency instructions) is out of scope: the statement is about branches and addresses"],
     technique="taint monitoring under valgrind/memcheck of rapidcheck-generated public-parameter programs (all secrets poisoned)",
     text=("Monitored execution: secrets are poisoned, so a clean run of one public program shows that no branch and no address in "
           "that run depended on any secret bit - it generalises over all secret values of that program. What is sampled is the "
           "space of public programs and build configurations."),
     note="trusts memcheck's taint propagation; checks the shipped object code, not an instrumented recompilation",
     design_ref="DESIGN.md#c08")


# ----------------------------------------------------------------------------- C09 (buffer contract)
VG_EXACT = [x for x in VG if not x.startswith("--partial-loads-ok")] + ["--partial-loads-ok=no"]

def c09_units(tier):
    extra = []
    if tier == "thorough":   # the byte-wise / 32-bit / SIMD-less paths have their own loads and stores
        extra = [Unit("c09-memcheck-w32-portable", "c09.cpp", W32_PORTABLE, cases=6000, shards=8, wrapper=VG_EXACT, args=["--mode", "vg"], timeout=6000),
                 Unit("c09-memcheck-novec256", "c09.cpp", NOVEC256, cases=6000, shards=8, wrapper=VG_EXACT, args=["--mode", "vg"], timeout=6000),
                 Unit("c09-native-w32-portable", "c09.cpp", W32_PORTABLE, cases=100000, shards=8, args=["--mode", "native"])]
    return extra + [Unit("c09-memcheck", "c09.cpp", SHIPPED, cases=scale(tier, 600, 10000), shards=8 if tier == "quick" else 16, wrapper=VG_EXACT, args=["--mode", "vg"], timeout=3000),
            Unit("c09-native", "c09.cpp", SHIPPED, cases=scale(tier, 25000, 400000), shards=4 if tier == "quick" else 16, args=["--mode", "native"]),
            asan_unit("c09-asan", "c09.cpp", scale(tier, 6000, 100000), args=["--mode", "native", "--heap", "1"], shards=4 if tier == "quick" else 16),
            # output buffer exactly k * 2^32 bytes after the input buffer (only the touched pages are mapped)
            Unit("c09-far", "big.cpp", SHIPPED, cases=scale(tier, 400, 5000), shards=4 if tier == "quick" else 16, args=["--family", "far"])]

def c09_post(cov):
    import collections
    cl = cov.get("classes", {})
    fa = collections.defaultdict(set); ov = collections.defaultdict(set); ip = []
    for k in cl:
        if k.startswith("place/"):
            f, a = k[6:].rsplit("@", 1); fa[f].add(int(a))
        elif k.startswith("overlap/"):
            _, f, d = k.split("/"); ov[f].add(int(d))
        elif k.startswith("inplace/"):
            ip.append(k[8:])
    want_ov = {f: (31 if ("128" in f) else 15) for f in ("k128.enc", "k128.dec", "t128.enc", "t128.dec", "k64.enc", "k64.dec", "t64.enc", "t64.dec", "mk.crypt", "mk.crypt_tw")}
    want_ip = ["c128.encrypt@be0", "c128.encrypt@be128", "c128.encrypt@be256", "c64.encrypt@be0", "c64.encrypt@be128", "cm.encrypt@be0", "cm.encrypt@be128",
               "p128.enc@be0", "p128.enc@be128", "p128.enc@be256", "p128.dec@be0", "p128.dec@be128", "p128.dec@be256",
               "p64.enc@be0", "p64.enc@be128", "p64.dec@be0", "p64.dec@be128", "pm.crypt@be0", "pm.crypt@be128"]
    cov["placement_matrix"] = dict(
        rule="cell = function @ back end / pointer argument @ address mod 16 (arena placements; offsets are relative to a 64-byte boundary); "
             "overlap = distance between output and input of a single-block call; in-place = bulk call with output == input",
        function_argument_pairs=len(fa), pairs_with_all_16_residues=sum(1 for v in fa.values() if len(v) == 16),
        pairs_missing_residues={f: sorted(set(range(16)) - v) for f, v in fa.items() if len(v) < 16},
        single_block_overlap_distances={f: "%d of %d" % (len(ov.get(f, ())), n) for f, n in want_ov.items()},
        bulk_in_place_not_generated=[f for f in want_ip if f not in ip])

prop("C09",
     post_cov=c09_post,
     units=c09_units,
     level="exploration",
     rule=("valid call programs over all object kinds and back ends with every pointer argument (key, tweak, counter, input, "
           "output, Mantis tweak array) at an independent offset 0..63 from a 64-byte aligned base, key / tweak / counter lengths "
           "over their whole legal range, data sizes from gchunk, overlap offsets d in [-(bs-1), bs-1] for single-block calls and "
           "out == in for bulk calls. Unit 1 (inside memcheck, --partial-loads-ok=no): each buffer is an exact window in a NOACCESS "
           "arena; violation = any invalid read/write report during a call, or an output byte left undefined. Units 2/3 (native, "
           "and ASan with exact heap blocks): guard zones intact, inputs unmodified, same outputs at a second alignment, and "
           "overlapping / in-place == disjoint. Non-trivial = a pointer at an odd offset, a non-zero overlap / in-place, or a size "
           "leaving a partial vector batch. Unit c09-far: CTR and parallel calls whose output buffer lies exactly 1 or 2 times 2^32 bytes "
           "after the input buffer (only the touched pages are mapped), sampled blocks against the single-block functions" + GEN_NOTE),
     assumptions=BUILD_ASSUME + ["memcheck addressability is byte-exact on both sides of every window (positive controls run at start-up)",
                                 "UBSan's alignment check is off: unaligned word access is the documented SKINNY_UNALIGNED assumption on x86"],
     technique="rapidcheck-generated placements under a memcheck NOACCESS arena + metamorphic alignment/overlap relations + ASan",
     text=("Generated placements, lengths and overlaps; a byte-exact monitor (memcheck) decides extents on the shipped binary, "
           "metamorphic relations decide alignment- and overlap-independence. Sampling of placements and sizes, not proof."),
     note="trusts memcheck addressability tracking and ASan",
     design_ref="DESIGN.md#c09")


# ----------------------------------------------------------------------------- C11 (function of API inputs only)
GCC_O0 = LibCfg(name="gcc-O0", opt="-O0")
GCC_O1 = LibCfg(name="gcc-O1", opt="-O1")
GCC_O2 = LibCfg(name="gcc-O2", opt="-O2")
CLANG_O0 = LibCfg(name="clang-O0", cc="clang", opt="-O0")
CLANG_O2 = LibCfg(name="clang-O2", cc="clang", opt="-O2")

def c11_units(tier):
    q = tier == "quick"
    n_vg = scale(tier, 500, 3000); n_p = scale(tier, 6000, 30000)
    u = [Unit("c11-memcheck-O0", "c11.cpp", GCC_O0, cases=n_vg, shards=6 if q else 16, wrapper=VG, args=["--mode", "vg"]),
         Unit("c11-memcheck-shipped", "c11.cpp", SHIPPED, cases=n_vg, shards=4 if q else 16, wrapper=VG, args=["--mode", "vg"]),
         # same seeds, separate processes (different ASLR), different optimisation levels / compilers: digests must agree
         Unit("c11-shipped-proc1", "c11.cpp", SHIPPED, cases=n_p, shards=4 if q else 16, args=["--mode", "paint"], digest_group="g"),
         Unit("c11-shipped-proc2", "c11.cpp", SHIPPED, cases=n_p, shards=4 if q else 16, args=["--mode", "paint"], digest_group="g"),
         Unit("c11-gcc-O0", "c11.cpp", GCC_O0, cases=n_p, shards=4 if q else 16, args=["--mode", "paint"], digest_group="g"),
         Unit("c11-clang-O2", "c11.cpp", CLANG_O2, cases=n_p, shards=4 if q else 16, args=["--mode", "paint"], digest_group="g")]
    if not q:
        u += [Unit("c11-memcheck-O1", "c11.cpp", GCC_O1, cases=n_vg, shards=16, wrapper=VG, args=["--mode", "vg"]),
              Unit("c11-memcheck-clang-O0", "c11.cpp", CLANG_O0, cases=n_vg, shards=16, wrapper=VG, args=["--mode", "vg"]),
              Unit("c11-gcc-O1", "c11.cpp", GCC_O1, cases=n_p, shards=16, args=["--mode", "paint"], digest_group="g"),
              Unit("c11-gcc-O2", "c11.cpp", GCC_O2, cases=n_p, shards=16, args=["--mode", "paint"], digest_group="g"),
              Unit("c11-clang-O0", "c11.cpp", CLANG_O0, cases=n_p, shards=16, args=["--mode", "paint"], digest_group="g")]
    return u

prop("C11",
     units=c11_units,
     level="exploration",
     rule=("generated API programs over every object kind (single-block, tweak histories, CTR and parallel histories with "
           "in-between key lengths (35 %), short / NULL tweaks and counters, default counters, mid-stream changes, invalid calls, "
           "life-cycle ops), each run once per back end. (a) inside memcheck on unoptimised (-O0: locals live in memory) and "
           "shipped builds, caller-owned schedules and output buffers initially undefined: no uninitialised-value report during a "
           "call, return value / outputs / active schedule image / handle fields defined afterwards. (b) native: identical "
           "transcripts (returns, outputs, active images, public fields) with the stack below each call painted 00 / FF / 5A, "
           "M_PERTURB 00 / A5 / 3C and caller-owned structs pre-filled differently; and identical per-case transcript digests "
           "between two separate processes (different ASLR) and between gcc -O3, gcc -O0, clang -O2 (thorough: more) builds fed "
           "the same case stream. Non-trivial = program has an in-between key length, a short/NULL tweak or counter, an init, or "
           "a caller-owned schedule" + GEN_NOTE),
     assumptions=MODEL_ASSUME[:0] + BUILD_ASSUME + ["memcheck sees undefinedness only where it lives in memory: hence the -O0 / -O1 builds next to the shipped one",
                  "stack painting alone is weak (the slot of an uninitialised local is usually rewritten by the previous callee); the cross-process "
                  "and cross-optimisation digest comparisons are the strong part of (b)"],
     technique="memcheck definedness monitor + metamorphic transcript equality (stack/heap paint, separate processes, -O levels, compilers) over rapidcheck-generated API programs",
     text=("Two generated-input oracles: a definedness monitor (memcheck) on builds where locals live in memory, and transcript "
           "equality across everything the property says must not matter (prior stack/heap/object contents, process, optimisation "
           "level, compiler). Sampling of programs; uninitialised reads that happen to be masked in every explored configuration "
           "would escape."),
     note="trusts memcheck definedness tracking; digests compare every return value, output byte, active schedule image and public field",
     design_ref="DESIGN.md#c11")


# ----------------------------------------------------------------------------- C12 (build configurations)
def c12_matrix(tier):
    """(name, LibCfg) list; the first entry is the baseline (shipped flags)."""
    cfgs = []
    simd = [("simd256", []), ("simd128", ["SKINNY_VERIF_VEC256_MATH=0"]), ("simd256only", ["SKINNY_VERIF_VEC128_MATH=0"]),
            ("nosimd", ["SKINNY_VERIF_VEC128_MATH=0", "SKINNY_VERIF_VEC256_MATH=0"]),
            ("neutral", ["SKINNY_VERIF_VEC128_MATH=0", "SKINNY_VERIF_VEC256_MATH=0", "SKINNY_VERIF_LITTLE_ENDIAN=0"])]
    full = []
    for cc in ("gcc", "clang"):
        for opt in ("-O3", "-O2", "-O1", "-O0"):
            for w in (1, 0):
                for ua in (1, 0):
                    for sname, sdefs in simd:
                        name = "%s%s-w%d-u%d-%s" % (cc, opt, 64 if w else 32, ua, sname)
                        defs = ["SKINNY_VERIF_64BIT=%d" % w, "SKINNY_VERIF_UNALIGNED=%d" % ua] + sdefs
                        full.append((name, LibCfg(name=name, cc=cc, opt=opt, defs=defs)))
    # ... and the library exactly as the repository's own Makefile builds it (whatever flags src/Makefile and options.mak carry)
    asmake = [("as-built-by-make", LibCfg(name="as-built-by-make", make=True))]
    if tier == "thorough":
        return full + asmake
    # quick: a subset that covers every value of every switch and every pair of (word, unaligned, simd/endian),
    # with compilers and -O levels spread over it
    pick = ["gcc-O3-w64-u1-simd256", "gcc-O3-w32-u0-simd256", "clang-O2-w32-u1-simd128", "gcc-O1-w64-u0-simd128",
            "gcc-O0-w64-u1-nosimd", "clang-O3-w32-u0-nosimd", "gcc-O2-w32-u1-nosimd", "clang-O0-w64-u0-nosimd",
            "gcc-O3-w64-u1-neutral", "clang-O1-w32-u0-neutral", "gcc-O0-w32-u1-neutral", "clang-O3-w64-u0-neutral",
            "clang-O3-w64-u1-simd256", "gcc-O2-w64-u0-simd256", "clang-O0-w32-u1-simd256", "gcc-O0-w32-u0-simd128",
            "gcc-O3-w64-u1-simd256only", "clang-O2-w32-u0-simd256only"]
    d = dict(full)
    return [(n, d[n]) for n in pick] + asmake

def c12_units(tier):
    from concurrent.futures import ThreadPoolExecutor
    def libs():
        mat = c12_matrix(tier)
        with ThreadPoolExecutor(5) as ex:
            sos = list(ex.map(lambda nc: skv.build_shared(nc[1]), mat))
        return ["--libs", ",".join("%s=%s" % (n, so) for (n, _), so in zip(mat, sos))]
    return [Unit("c12", "c12.cpp", None, cases=scale(tier, 4000, 6000), shards=16, args=libs, timeout=6000)]

prop("C12",
     units=c12_units,
     level="exploration",
     rule=("build configurations = word arithmetic {64, 32 bit} x unaligned fast paths {on, off} x {both SIMD back ends, 128-bit "
           "only, 256-bit only, SIMD stubbed out, SIMD off + byte-order-neutral scalar code} x {gcc, clang} x {-O0..-O3}: all 160 in the thorough "
           "tier, an 18-configuration subset covering every pair of switch values in the quick tier, plus - in both tiers - the library as "
           "the repository's own Makefile builds it (src/, include/, options.mak copied to a scratch directory, make run there); each is compiled from the "
           "current tree (hook H1 overrides) into a shared object and loaded privately; generated programs = union of the "
           "C01-C07 generators plus in-between key lengths, default counters, mid-stream changes, invalid and life-cycle calls; "
           "oracle = transcript (returns, outputs, active schedule images, public fields) of every configuration x available back "
           "end equals the baseline (gcc -O3, 64-bit, unaligned, both SIMD) for the same back end, and the baseline equals the API "
           "/ specification model; non-trivial = program processes data; distinct = distinct programs" + GEN_NOTE),
     assumptions=MODEL_ASSUME + ["position-independent code in shared objects stands for the static build of the same configuration",
                  "no big-endian or NEON hardware, no 32-bit ABI: the 32-bit-word and byte-order-neutral paths are compiled for, and executed "
                  "on, the little-endian 64-bit host, which is what the property's quantifier says"],
     technique="differential property-based testing (rapidcheck) across build configurations loaded side by side in one process",
     text=("The same generated call programs are executed by every build configuration in one process and must produce identical "
           "transcripts - with the baseline of the same back end and with the baseline's generic back end. The configuration space is "
           "enumerated completely in the thorough tier (160 builds); programs are sampled."),
     note="trusts the H1 override hook to select the compile-time paths the switches name",
     design_ref="DESIGN.md#c12")


# ----------------------------------------------------------------------------- C13 (back-end selection)
def c13_units(tier):
    n = scale(tier, 5000, 50000); q = tier == "quick"
    u = []
    def mon(cfg):
        return LibCfg(name=cfg.name + "+allocmon", cc=cfg.cc, opt=cfg.opt, cflags=cfg.cflags, defs=cfg.defs, vec128=cfg.vec128, vec256=cfg.vec256, alloc_redirect=True)
    for name, cfg, a in (("", SHIPPED, ["--vec128", "1", "--vec256", "1"]), ("-novec256", NOVEC256, ["--vec128", "1", "--vec256", "0"]),
                         ("-nosimd", NOSIMD, ["--vec128", "0", "--vec256", "0"])):
        main = name == ""
        srcs = ["c13.cpp", "tramp.S", "mon_alloc.c"]
        u.append(Unit("c13-real" + name, srcs, mon(cfg), cases=n, shards=(4 if main else 1) if q else 8, args=a + ["--cases", "real"]))
        u.append(Unit("c13-model" + name, srcs, mon(cfg), cases=n, shards=(6 if main else 2) if q else 16, args=a + ["--cases", "model"]))
    return u

# C13, second oracle: which instructions the selected back end actually executes (lib/isa_audit.py)
def c13_isa_audit(pid, tier, seed, work, units):
    import isa_audit, subprocess
    from concurrent.futures import ThreadPoolExecutor
    exe = isa_audit.build(work)
    insn, syms, libfuncs = isa_audit.disassemble(exe)
    # programs from the C06 generator (one object of any kind; valid, invalid and life-cycle calls); the back-end cap of the
    # init calls is rewritten to 128 / 0 / 256 - two thirds run on a capped back end, which this AVX2 host never selects by itself
    g = Unit("c13-isa-gen", "c06.cpp", SHIPPED, cases=1, shards=1)
    g.build(work)
    cdir = skv._mk(os.path.join(work, "isa-corpus"))
    want = 16 if tier == "quick" else 96
    env = dict(os.environ, **g.env); env["RC_PARAMS"] = "seed=%d max_success=%d max_size=60" % (seed * 1000 + 777, want + 8)
    subprocess.run(g.cmd("gen", "--corpus", cdir, "--corpus-n", str(want + 8), "--dumponly", "1"), env=env, stdout=subprocess.PIPE, stderr=subprocess.STDOUT, timeout=1200)
    import re as _re
    pick = []; high = set()
    for i, f in enumerate(sorted(os.listdir(cdir))):
        text = open(os.path.join(cdir, f)).read()
        if ".init " not in text or " rep=" in text:
            continue
        cap = (128, 0, 128, 256, 128, 256)[i % 6]
        text = _re.sub(r"\bbe=\d+", "be=%d" % cap, text)
        open(os.path.join(cdir, f), "w").write(text)
        if isa_audit.level_of(text) == 256:
            high.add(f)
        pick.append(f)
    pick = pick[:want]
    if len(pick) < 4:
        raise skv.InfraError("instruction audit: the generator produced only %d usable programs" % len(pick))
    def one(f):
        return f, isa_audit.audit(exe, os.path.join(cdir, f), work, insn, syms, libfuncs, f)
    viol = []; total = 0; nlib = 0; per = {"capped at generic / 128-bit": 0, "256-bit": 0}
    with ThreadPoolExecutor(12) as ex:
        for f, (bad, t, n) in ex.map(one, pick):
            total += t; nlib += n
            per["256-bit" if f in high else "capped at generic / 128-bit"] += 1
            if bad and len(viol) < 3:
                rp = runner.save_replay(pid, open(os.path.join(cdir, f)).read())
                viol.append((rp, "instruction-set-audit", bad))
    return viol, {"instruction_set_audit": dict(
        programs=len(pick), programs_by_back_end=per, instructions_executed_inside_library_calls=total,
        distinct_library_instructions_classified=nlib, library_build="as the repository's Makefile builds it (make -C src in a scratch copy, CFLAGS=-DSKINNY_C_VERIF)",
        rule="every instruction executed inside a library function while an object capped at the generic or 128-bit back end is in use must be "
             "x86-64 baseline (SSE2 included); on the 256-bit back end AVX / AVX2 (and legacy SSE3..SSE4.2 encodings) are allowed too; anything "
             "else - SSSE3 in the 128-bit code, AVX in generic code, BMI / FMA / AVX-512 anywhere - is an instruction the selection logic never probed for")}

def c13_isa_replay(path, work):
    import isa_audit
    text = open(path).read()
    if text.lstrip().startswith("cpu") or isa_audit.level_of(text) is None or "probe." in text:
        return None
    exe = isa_audit.build(work)
    insn, syms, libfuncs = isa_audit.disassemble(exe)
    bad, t, n = isa_audit.audit(exe, path, work, insn, syms, libfuncs, "replay")
    return bad

prop("C13",
     extra=c13_isa_audit, extra_replay=c13_isa_replay,
     units=c13_units,
     level="exploration",
     rule=("cases = 2-8 calls of the six init functions and the two internal probes, each through an assembly trampoline that loads "
           "generated values into every caller-saved general register but the argument and scribbles 512 bytes of stack below; "
           "40 % on the real CPU (ground truth from an independent probe: max leaf, leaf 1, OSXSAVE, XGETBV, leaf 7 sub-leaf 0), "
           "60 % on a generated CPU model answered through the CPUID/XGETBV hook (max basic leaf 1..0x20, SSE/SSE2/OSXSAVE/AVX "
           "bits, leaf-7 sub-leaf table with max sub-leaf 0..2, Intel vs AMD out-of-range-leaf behaviour, XCR0 values, and the "
           "garbage ECX delivered whenever plain __cpuid is used); oracle: selected back end (vtable identity / parallel vtable + "
           "size) == widest compiled-in back end the (real or modelled) CPU and OS support, advertised parallel size matches, "
           "XGETBV never executed without OSXSAVE, identical on every call - also after an init whose allocation was made to fail (10 % of the init calls) "
           "- for the shipped, VEC256-less and SIMD-less builds; each "
           "modelled case runs in a forked child of a process that never calls the library (a probe result cached by the library "
           "would be legitimate here - a real CPU does not change - and must not make cases influence each other); "
           "non-trivial = real-CPU case with non-zero ECX garbage, or a model that is not 'everything present'; models also carry the vendor "
           "string (Intel, AMD, Hygon, Centaur, Zhaoxin, arbitrary bytes) and family/model/stepping of real parts or arbitrary values, which must not "
           "matter. Second oracle (coverage.instruction_set_audit) for 'never a back end whose instructions the CPU cannot execute': generated "
           "API programs with the back end capped at generic / 128-bit / 256-bit run under valgrind/lackey against the library as the repository's "
           "Makefile builds it; every instruction executed inside a library function is classified by ISA extension: baseline x86-64 (SSE2) only "
           "below the 256-bit back end, AVX/AVX2 in addition on it, nothing that was never probed (SSSE3, BMI, FMA, AVX-512, ...)"),
     assumptions=BUILD_ASSUME[:0] + ["SSE OS support is architectural on x86-64 and is not modelled", "modelled CPUs decide selection logic only; instruction execution happens on the host"],
     technique="property-based testing (rapidcheck): generated register/stack garbage on the real CPU + generated CPU models through a CPUID hook + executed-instruction audit of generated programs per back end",
     text=("Generated calling contexts on the real CPU show whether the choice depends on register or stack garbage; generated CPU "
           "models (the host has every feature, so only a model separates the feature bits) show whether the choice is the widest "
           "supported one and never an unsupported one. A second, independent oracle audits the instructions that generated programs actually "
           "execute inside the library per back end (on the library as the repository's Makefile builds it): nothing the selection logic did not "
           "probe for. Sampling of contexts, models and programs."),
     note="trusts the H3 hook to put the model in place of CPUID/XGETBV and the expected-selection function written from the Intel SDM rules",
     design_ref="DESIGN.md#c13")


# ----------------------------------------------------------------------------- C18 (thread safety, TSan)
TSAN = LibCfg(name="tsan", cc="clang", opt="-O2", cflags=["-fsanitize=thread", "-g", "-fno-omit-frame-pointer"])
TSAN_ENV = {"TSAN_OPTIONS": "halt_on_error=0:report_signal_unsafe=0:exitcode=0:history_size=4:suppressions=" + os.path.join(skv.VERIF, "harness", "tsan.supp")}

prop("C18",
     units=lambda tier: [Unit("c18", "c18.cpp", TSAN, cases=scale(tier, 300, 6000), shards=8 if tier == "quick" else 16, cxx="clang++",
                              hflags=["-fsanitize=thread"], link_flags=["-fsanitize=thread"], env=TSAN_ENV, timeout=3000)],
     level="exploration",
     rule=("scenarios of 2-8 threads; every thread initialises 1-2 objects of its own (concurrent init = concurrent CPU detection) and "
           "runs a generated history on them (CTR / parallel-ECB of every cipher); 0-3 shared objects (Skinny key schedules, tweaked "
           "schedules, Mantis schedules, keyed parallel-ECB objects) are set up before the threads start and are then used read-only "
           "(block encryption / decryption) by any thread; the back-end cap is set once per scenario before threads exist (0 / 128 / "
           "256); library and harness built with clang -fsanitize=thread; oracles: no ThreadSanitizer report (callback counted per "
           "scenario; a deliberate race in harness code is the positive control at start-up) and every thread's transcript equals the "
           "same program run alone sequentially; non-trivial = >= 2 threads (always), classes list shared-object use; a shared object's single-threaded life before sharing includes 0-3 mode swaps (Mantis), a stored tweak, sometimes a first use" + GEN_NOTE),
     assumptions=["ThreadSanitizer's happens-before detection reports two conflicting unsynchronised accesses whenever both occur in the "
                  "run, whatever order they took; the library has no synchronisation at all, so any shared mutable location touched by two "
                  "threads is reported - what it cannot see is a conflict on a path no generated scenario executes",
                  "rapidcheck itself is not TSan-instrumented (it runs only on the main thread)"],
     technique="generated multi-thread scenarios (rapidcheck) under ThreadSanitizer + per-thread transcript equality with the sequential run",
     text=("Schedules are not owned by the harness; the race detector removes most of the schedule dependence because it flags "
           "conflicting accesses regardless of the interleaving that happened. Path coverage is sampled."),
     note="trusts ThreadSanitizer (clang 14)",
     design_ref="DESIGN.md#c18")


# ----------------------------------------------------------------------------- C19 (Arduino port)
import glob as _glob
def _ard_dir(): return os.path.join(skv.REPO, "arduino", "libraries", "Skinny")
def _ard_headers(): return sorted(_glob.glob(os.path.join(_ard_dir(), "*.h")) + _glob.glob(os.path.join(_ard_dir(), "utility", "*.h")))
def _ard_srcs():
    d = _ard_dir()
    return [(os.path.join(d, f), "g++", ["-std=gnu++17", "-I" + d], _ard_headers())
            for f in ("BlockCipher.cpp", "CTR.cpp", "Cipher.cpp", "Crypto.cpp", "Mantis8.cpp", "Skinny128.cpp", "Skinny64.cpp")]

prop("C19",
     units=lambda tier: [Unit("c19", "c19.cpp", SHIPPED, cases=scale(tier, 25000, 400000), shards=16,
                              hflags=lambda: ["-I" + _ard_dir()], hdeps=_ard_headers, ext_srcs=_ard_srcs)],
     level="exploration",
     rule=("per case one of the 11 block-cipher classes (Skinny128_128/256/384, Skinny128_256/384_Tweaked, Skinny64_64/128/192, "
           "Skinny64_128/192_Tweaked, Mantis8) or CTR<T> over the five Skinny-128 classes, and a history of 3-24 calls: setKey "
           "(class key size), setTweak(block-size bytes | NULL), Mantis8 swapModes, encryptBlock / decryptBlock, clear (after which "
           "only setKey is generated - the documented way to reuse), CTR setIV / encrypt / decrypt with arbitrary cuts; oracle = the C "
           "library object of the corresponding variant driven by the corresponding calls: equal outputs and equal accept/reject "
           "results; non-trivial = a block operation after >= 2 tweak changes, or after a swap following a tweak change, or a CTR "
           "call whose length is not a multiple of 16; about 1 in 500 CTR calls processes a little more than 1 MiB (65536 blocks) at once; a quarter of the block calls place input and output in one buffer at a generated distance |d| < block size (0 = in place) and alignment, as BlockCipher documents"),
     assumptions=BUILD_ASSUME + ["the portable (#else of USE_AVR_INLINE_ASM) C++ path is compiled unchanged with the host g++; the AVR inline-assembly path is out of reach on the host (stated in the property)",
                  "setCounterSize(n < 16), wrong key lengths and setTweak before setKey are not generated: the C API has no counterpart / the Arduino documentation excludes them"],
     technique="differential stateful property-based testing (rapidcheck): Arduino classes vs the C library on identical call histories",
     text=("Generated per-class call histories executed by the Arduino class and by the C library must agree on every output and "
           "accept/reject decision. Sampling of histories; host build of the portable path only."),
     note="differential: trusts neither side alone; the C side is tied to the specification by C01-C05",
     design_ref="DESIGN.md#c19")


# ----------------------------------------------------------------------------- C20 (example tools)
def _build_tools():
    """Build skinny-ctr / skinny-tweak / skinny-ecb from the current tree against the freshly built library."""
    import hashlib, tempfile, shutil
    ex = os.path.join(skv.REPO, "examples")
    srcs = sorted(_glob.glob(os.path.join(ex, "*.[ch]")))
    lib = skv.build_lib(SHIPPED)
    h = skv.sha_files(srcs + [lib], "tools")
    out = os.path.join(skv.BUILD, "tools", h)
    if not os.path.exists(os.path.join(out, "skinny-ecb")):
        tmp = tempfile.mkdtemp(prefix="tools-", dir=skv._mk(os.path.join(skv.BUILD, "tmp")))
        try:
            for t in ("skinny-ctr", "skinny-tweak", "skinny-ecb"):
                cmd = ["gcc", "-O3", "-std=c99", "-Wall", "-I" + os.path.join(skv.REPO, "include"), "-I" + ex, "-o", os.path.join(tmp, t),
                       os.path.join(ex, t + ".c"), os.path.join(ex, "options.c"), lib]
                rc, o = skv.sh(cmd)
                if rc != 0:
                    raise skv.InfraError("example tool does not build: %s\n%s" % (" ".join(cmd), o[-3000:]))
            skv._mk(os.path.dirname(out))
            if os.path.exists(out):
                shutil.rmtree(out)
            os.replace(tmp, out)
        finally:
            shutil.rmtree(tmp, ignore_errors=True)
        skv._prune(os.path.join(skv.BUILD, "tools"), 30)
    return ["--tools", out]

prop("C20",
     units=lambda tier: [Unit("c20", "c20.cpp", SHIPPED, cases=scale(tier, 2500, 25000), shards=16, timeout=3000 if tier == "quick" else 9000,
                              args=(lambda: _build_tools() + ["--bigfile", "1"]) if tier == "thorough" else _build_tools,
                              env={"SKV_TMP": skv._mk(os.path.join(skv.BUILD, "tmp"))})],
     level="exploration",
     rule=("process-level cases: tool in {skinny-ctr, skinny-tweak, skinny-ecb} x block size {64, 128; -b given or defaulted} x key of "
           "a legal length (30 % in-between lengths) x optional counter/tweak of length 1..bs (carry-heavy values) x file content of "
           "length from {0, 1, bs-1, bs, bs+1, 1023, 1024, 1025, 2047..2049, 2048+bs+3, uniform <= 5000}; the tool built from the "
           "current tree is run (posix_spawn) on files in a private directory; oracle: output == the library computing the same "
           "in-process (CTR over the whole input; tweakable encryption of whole blocks under tweak0 + i, big-endian over the given "
           "tweak length; ECB of whole blocks), length rule, and a second run (-d for tweak/ecb) restores the (truncated) input; "
           "22 % invalid invocations (no -k, key too short / too long for tool and block size, counter/tweak longer than the block, "
           "bad -b, non-hex digits, empty key, unknown option, unreadable input) must exit non-zero and leave no output file; "
           "non-trivial = invalid invocation, or length > 1024 and not a multiple of the block, or short counter/tweak, or in-between key; "
           "the option groups (-b, -k, -c/-t, -d) appear in a generated order; in the thorough tier about 4 % of the cases feed a sparse "
           "all-zero input of 2^32 + k bytes and check the output length and sampled blocks; 10 % of the valid invocations deliver the input through a FIFO whose writer pauses after a generated number of bytes (a tool may refuse such an input with a non-zero status and no output, but may not exit 0 with different bytes)"),
     assumptions=BUILD_ASSUME + ["the in-process library computation is tied to the specification by C01, C04, C05, C10",
                  "odd-length hex strings and separator characters are not generated (undocumented either way)"],
     technique="process-level property-based testing (rapidcheck): generated files/keys/options through the built tools vs in-process library + round trip",
     text=("Generated files, keys, counters/tweaks and option sets are pushed through the real executables and compared with the "
           "library and by round trip; invalid option classes are enumerated with generated values. Sampling."),
     note="trusts the in-process library as oracle (checked by the other properties)",
     design_ref="DESIGN.md#c20")

# ----------------------------------------------------------------------------- generic entry points
def run(pid, tier, seed, replay):
    p = PROPS[pid]
    if "custom" in p:
        return p["custom"](pid, tier, seed, replay)
    units = p["units"](tier)
    if replay:
        return runner.replay_only(pid, units, replay, extra_replay=p.get("extra_replay"))
    return runner.run_units(pid, units, tier, seed, p["level"], p["rule"], p["assumptions"], extra=p.get("extra"),
                            known=known_for(pid), extra_cov=p.get("extra_cov"), post_cov=p.get("post_cov"), fuzz=p.get("fuzz"))


REGISTRY = {pid: run for pid in PROPS}


def harness_jobs():
    """(source, compiler, flags) of every harness translation unit used by any unit of any tier."""
    jobs = {}
    for pid, p in PROPS.items():
        if "units" not in p:
            continue
        for tier in ("quick", "thorough"):
            for u in p["units"](tier):
                if u.builder:
                    continue
                for h in u.harness:
                    ccomp = "gcc" if "g++" in u.cxx else "clang"
                    cxx = u.cxx if h.endswith(".cpp") else ccomp
                    hf = u.hflags() if callable(u.hflags) else u.hflags
                    jobs[(h, cxx, tuple(hf))] = (h, cxx, list(hf), u.hdeps() if u.hdeps else ())
    return list(jobs.values())
