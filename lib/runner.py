"""Generic runner for the checks: build, shard, collect, replay, evidence."""
import array, hashlib, json, os, shutil, subprocess, sys, tempfile, time

import skv
from skv import InfraError, LibCfg


class Unit:
    """One (harness binary x library build) that generates and runs cases."""
    def __init__(self, name, harness, libcfg=None, cases=1000, shards=16, max_size=100, cxx="g++",
                 hflags=(), link_flags=(), libs=("-lrapidcheck",), wrapper=(), args=(), env=None,
                 extra_objs=(), timeout=3000, weight=1.0, crash_is_violation=True, builder=None, digest_group=None,
                 ext_srcs=None, hdeps=None):
        self.name = name; self.harness = harness if isinstance(harness, (list, tuple)) else [harness]
        self.libcfg = libcfg; self.cases = cases; self.shards = shards; self.max_size = max_size
        self.cxx = cxx; self.hflags = hflags if callable(hflags) else list(hflags); self.link_flags = list(link_flags); self.libs = list(libs)
        self.wrapper = list(wrapper); self.args = args if callable(args) else list(args); self.env = env or {}
        self.extra_objs = list(extra_objs); self.timeout = timeout
        self.crash_is_violation = crash_is_violation
        self.builder = builder      # optional callable(unit, workdir) -> path of binary
        self.ext_srcs = ext_srcs    # callable -> [(path, compiler, flags, deps)] : sources that live in the repository
        self.hdeps = hdeps          # callable -> [paths] the harness TU depends on besides harness/ and include/
        self.digest_group = digest_group   # units of one group see identical case streams; their per-case transcript digests must agree
        self.binary = None

    def build(self, work):
        if self.builder:
            self.binary = self.builder(self, work)
            return self.binary
        ccomp = "gcc" if "g++" in self.cxx else "clang"
        hflags = self.hflags() if callable(self.hflags) else self.hflags
        objs = [skv.build_harness_obj(h, cxx=self.cxx if h.endswith(".cpp") else ccomp, flags=hflags,
                                      extra_deps=self.hdeps() if self.hdeps else ())
                for h in self.harness]
        if self.ext_srcs:
            for (path, comp, flags, deps) in self.ext_srcs():
                objs.append(skv.build_ext_obj(path, comp, flags, deps))
        if self.libcfg is not None:
            objs.append(skv.build_lib(self.libcfg))
        objs += self.extra_objs
        self.binary = os.path.join(work, "h-" + self.name)
        skv.link(objs, self.binary, cxx=self.cxx, libs=self.libs + ["-ldl"], flags=self.link_flags)
        return self.binary

    def cmd(self, *a):
        if callable(self.args):
            self.args = list(self.args())      # resolved lazily (e.g. builds of many library configurations)
        return self.wrapper + [self.binary] + list(a) + self.args


def save_replay(pid, text):
    # (runs against a scratch tree keep their replay files out of the committed directory)
    d = skv._mk(os.path.join(skv.VERIF, "replays") if not os.environ.get("VERIF_REPO") else os.path.join(skv.VERIF, "build", "scratch-replays"))
    h = hashlib.sha256(text.encode()).hexdigest()[:12]
    p = os.path.join(d, "%s-%s.prog" % (pid, h))
    with open(p, "w") as f:
        f.write(text)
    return p


def replay_fails(unit, path, times=3):
    """Run the plain replayer `times` times; returns (number of failing runs, last output)."""
    fails = 0; out = ""
    for _ in range(times):
        try:
            r = subprocess.run(unit.cmd("replay", path), stdout=subprocess.PIPE, stderr=subprocess.STDOUT, text=True,
                               timeout=600, env=dict(os.environ, **unit.env), errors="replace")
            out = r.stdout
            if r.returncode == 2:
                raise InfraError("replayer infrastructure error: " + out[-2000:])
            if r.returncode != 0:
                fails += 1
        except subprocess.TimeoutExpired:
            out = "timeout"
    return fails, out


def count_distinct(hash_files, cap=8000000):
    a = array.array("Q")
    for hf in hash_files:
        try:
            with open(hf, "rb") as f:
                data = f.read()
            b = array.array("Q"); b.frombytes(data[: len(data) // 8 * 8]); a.extend(b)
        except OSError:
            pass
        if len(a) > cap:
            break
    return len(set(a))


def compare_digests(pid, units, work, seed, violations):
    """Units of one digest group ran the same case streams (same seeds) in separate processes and/or against
    different builds: the per-case transcript digests must be identical."""
    groups = {}
    for u in units:
        if u.digest_group:
            groups.setdefault(u.digest_group, []).append(u)
    info = {}
    for g, us in groups.items():
        ref = us[0]; compared = 0
        for other in us[1:]:
            for i in range(min(ref.shards, other.shards)):
                fa = os.path.join(work, "%s-s%d.digest" % (ref.name, i)); fb = os.path.join(work, "%s-s%d.digest" % (other.name, i))
                try:
                    a = open(fa, "rb").read(); b = open(fb, "rb").read()
                except OSError:
                    continue
                n = min(len(a), len(b)) // 16
                compared += n
                for k in range(n):
                    if a[16 * k:16 * k + 16] != b[16 * k:16 * k + 16]:
                        if a[16 * k:16 * k + 8] != b[16 * k:16 * k + 8]:
                            raise InfraError("case streams of %s and %s diverge (generator not deterministic?)" % (ref.name, other.name))
                        if len(violations) >= 3:
                            break
                        # regenerate the k-th case of this shard
                        dump = os.path.join(work, "dump-%s-%d-%d.prog" % (g, i, k))
                        env = dict(os.environ, **ref.env)
                        env["RC_PARAMS"] = "seed=%d max_success=%d max_size=%d" % (seed * 1000 + i + 1, k + 1, ref.max_size)
                        subprocess.run(ref.cmd("gen", "--dump-index", str(k), "--dump-path", dump), env=env,
                                       stdout=subprocess.PIPE, stderr=subprocess.STDOUT, timeout=1200)
                        if not os.path.exists(dump):
                            raise InfraError("could not regenerate case %d of shard %d" % (k, i))
                        rp = save_replay(pid, open(dump).read())
                        da = digest_of(ref, rp); db = digest_of(other, rp)
                        if da is None or db is None or da == db:
                            os.unlink(rp)
                            raise InfraError("digest mismatch between %s and %s does not reproduce from the saved case" % (ref.name, other.name))
                        violations.append((rp, "%s vs %s" % (ref.name, other.name),
                                           "the same calls give different results in %s (digest %s) and %s (digest %s)" % (ref.name, da, other.name, db)))
                        break
        info[g] = dict(units=[u.name for u in us], cases_compared=compared)
    return info


def digest_of(unit, path):
    r = subprocess.run(unit.cmd("replay", path), stdout=subprocess.PIPE, stderr=subprocess.STDOUT, text=True,
                       env=dict(os.environ, **unit.env), errors="replace", timeout=600)
    for line in r.stdout.splitlines():
        if "digest=" in line:
            return line.split("digest=")[1].strip()
    return None


def run_units(pid, units, tier, seed, level, rule, assumptions, extra_cov=None, known=None, exclude_note=None, post_cov=None, fuzz=None, extra=None):
    """Build and run all units; returns exit code.  Writes evidence."""
    t0 = time.time()
    work = tempfile.mkdtemp(prefix="skv-%s-" % pid, dir=skv._mk(os.path.join(skv.BUILD, "tmp")))
    violations = []
    try:
        # build everything first (in parallel where possible)
        for u in units:
            u.build(work)
        for u in units:
            rc, out = skv.sh(u.cmd("selftest"), env=dict(os.environ, **u.env), timeout=600)
            if rc != 0:
                raise InfraError("self-test of %s failed (rc=%d): %s" % (u.name, rc, out[-3000:]))
        # known findings: re-run the recorded replays
        known_lines = []
        for k in (known or []):
            rp = os.path.join(skv.VERIF, k["replay"])
            u = units[0]
            if k.get("unit"):
                u = [x for x in units if x.name == k["unit"]][0]
            fails, out = replay_fails(u, rp, 1)
            if fails:
                known_lines.append("KNOWN-FINDING: property=%s %s" % (pid, k["what"]))
        for l in known_lines:
            print(l)
        # shards
        cmds = []; meta = []
        for u in units:
            for i in range(u.shards):
                base = os.path.join(work, "%s-s%d" % (u.name, i))
                env = dict(u.env)
                env["RC_PARAMS"] = "seed=%d max_success=%d max_size=%d" % (seed * 1000 + i + 1, u.cases, u.max_size)
                dig = ["--digest", base + ".digest"] if u.digest_group else []
                cmds.append((u.cmd("gen", "--out", base + ".json", "--fail", base + ".fail", *dig), env))
                meta.append((u, base))
        tmo = max(u.timeout for u in units)
        if os.environ.get("VERIF_TIMEOUT"):
            tmo = int(os.environ["VERIF_TIMEOUT"])      # mutation campaigns: a mutant that makes the library loop forever must not cost an hour
        results = skv.run_procs(cmds, timeout=tmo)
        stat_files = []; hash_files = []; per_unit = {}
        for (u, base), (rc, out) in zip(meta, results):
            stat_files.append(base + ".json"); hash_files.append(base + ".json.hashes")
            pu = per_unit.setdefault(u.name, dict(shards=0, failed=0, inconclusive=0))
            pu["shards"] += 1
            if rc == 0:
                continue
            if rc == -999:
                pu["inconclusive"] += 1     # time budget hit: inconclusive, never a violation
                continue
            failfile = None
            if rc == 1 and os.path.exists(base + ".fail"):
                failfile = base + ".fail"
            elif os.path.exists(base + ".fail.crash") and u.crash_is_violation:
                failfile = base + ".fail.crash"
            if failfile is None:
                raise InfraError("shard of %s exited with rc=%d without a failing case:\n%s" % (u.name, rc, out[-4000:]))
            pu["failed"] += 1
            if len(violations) >= 3:
                continue        # enough witnesses; further failing shards are only counted
            text = open(failfile).read()
            msg = ""
            if failfile.endswith(".crash"):
                msg = "the process crashed (signal / sanitizer abort, rc=%d) while executing this case: %s" % (rc, out.strip()[-600:])
            if os.path.exists(base + ".fail.msg"):
                msg = open(base + ".fail.msg").read().strip()
            rp = save_replay(pid, text)
            fails, rout = replay_fails(u, rp, 3)
            if fails == 3:
                violations.append((rp, u.name, msg or rout[-500:]))
            else:
                # The failure does not reproduce from its saved case in a fresh process: it depended on something an
                # earlier case of the shard left behind in the process.  Re-run the shard with every case in its own
                # forked child; a failing case found that way is self-contained and must replay.
                os.unlink(rp)
                confirmed = False
                # (1) the cases that preceded it in the same process, replayed as one sequence
                hist = base + ".fail.history"
                if os.path.exists(hist):
                    progs = open(hist).read().split("----\n")
                    def seq_fails(ps):
                        tmpf = base + ".seq.prog"
                        open(tmpf, "w").write("----\n".join(ps))
                        return replay_fails(u, tmpf, 1)[0] == 1
                    if seq_fails(progs) and seq_fails(progs):
                        # greedy minimisation of the sequence (the last program is the one judged to fail)
                        i = 0; budget = 120
                        while i < len(progs) - 1 and budget > 0:
                            trial = progs[:i] + progs[i + 1:]
                            budget -= 1
                            if seq_fails(trial): progs = trial
                            else: i += 1
                        rp = save_replay(pid, "----\n".join(progs))
                        f2, rout2 = replay_fails(u, rp, 3)
                        if f2 == 3:
                            violations.append((rp, u.name, "(needs the %d preceding program(s) of the replay file to run first in the same process: the library "
                                               "keeps state between unrelated objects) %s" % (len(progs) - 1, msg)))
                            confirmed = True
                        else:
                            os.unlink(rp)
                # (2) every case of the shard isolated in its own process: a failing case found that way is self-contained
                idx = [i for i, (mu, mb) in enumerate(meta) if mb == base][0]
                ic, ienv = cmds[idx]
                ibase = base + ".iso"
                icmd = [ibase + ".fail" if a == base + ".fail" else (ibase + ".json" if a == base + ".json" else a) for a in ic] + ["--isolate", "1"]
                ir = skv.run_procs([(icmd, ienv)], timeout=u.timeout)[0] if not confirmed else (0, "")
                if ir[0] == 1 and os.path.exists(ibase + ".fail"):
                    text = open(ibase + ".fail").read()
                    msg2 = open(ibase + ".fail.msg").read().strip() if os.path.exists(ibase + ".fail.msg") else ""
                    rp = save_replay(pid, text)
                    f2, rout2 = replay_fails(u, rp, 3)
                    if f2 == 3:
                        violations.append((rp, u.name, msg2 or rout2[-500:]))
                        confirmed = True
                    else:
                        os.unlink(rp)
                if not confirmed:
                    raise InfraError("failure of %s does not reproduce from its saved case (%d/3) and no self-contained failing case was found "
                                     "with every case isolated in its own process: the verdict on a case depended on earlier cases of the same "
                                     "process (state kept inside the library between calls on unrelated objects?): %s\n%s" % (u.name, fails, msg, rout[-1500:]))
        digest_info = compare_digests(pid, units, work, seed, violations)
        fuzz_info = None
        if fuzz and tier == "thorough":
            fv, fuzz_info, fstat, fhash = run_fuzz(pid, fuzz["prop"], units[0], units, work, seed,
                                                   workers=fuzz.get("workers", 8), seconds=fuzz.get("seconds", 120))
            violations.extend(fv); stat_files.extend(fstat); hash_files.extend(fhash)
        extra_info = None
        if extra:
            ev, extra_info = extra(pid, tier, seed, work, units)
            violations.extend(ev)
        # a time budget hit means "inconclusive", never a violation - but a unit none of whose shards finished has decided
        # nothing, and saying so with exit status 0 would be a silent pass
        for name, pu in per_unit.items():
            if pu["shards"] and pu["inconclusive"] == pu["shards"]:
                raise InfraError("no shard of unit %s finished within its time budget (%d s): nothing was decided" % (name, tmo))
        st = skv.merge_stats(stat_files)
        distinct = count_distinct(hash_files)
        cov = dict(evaluations=st["evaluations"], distinct_nontrivial=distinct, rule=rule, samples=st["samples"],
                   classes=st["classes"], units=per_unit, exhaustive=False)
        cov.update(st["extra"])
        if fuzz_info:
            cov["libfuzzer_campaign"] = fuzz_info
        if extra_info:
            cov.update(extra_info)
        if digest_info:
            cov["cross_process_and_cross_build_digest_comparisons"] = digest_info
        if extra_cov:
            cov.update(extra_cov)
        if exclude_note:
            cov["excluded_known_findings"] = exclude_note
        if post_cov:
            post_cov(cov)
        uniq = {}
        for rp, un, msg in violations:
            uniq.setdefault(rp, (un, msg))
        skv.write_evidence(pid, tier, seed, level, cov, assumptions, time.time() - t0, len(uniq))
        for rp, (un, msg) in uniq.items():
            print("VIOLATION property=%s replay=%s" % (pid, os.path.relpath(rp, skv.VERIF)))
            print("  unit=%s %s" % (un, msg[:1500]))
        if not uniq:
            print("%s %s: held on %d generated cases (%d distinct non-trivial), %.1fs" %
                  (pid, tier, cov["evaluations"], distinct, time.time() - t0))
        return 1 if uniq else 0
    finally:
        shutil.rmtree(work, ignore_errors=True)


def replay_only(pid, units, path, extra_replay=None):
    work = tempfile.mkdtemp(prefix="skv-%s-" % pid, dir=skv._mk(os.path.join(skv.BUILD, "tmp")))
    try:
        bad = 0; digests = {}
        for u in units:
            u.build(work)
            r = subprocess.run(u.cmd("replay", path), stdout=subprocess.PIPE, stderr=subprocess.STDOUT, text=True,
                               env=dict(os.environ, **u.env), errors="replace")
            print("[%s] rc=%d %s" % (u.name, r.returncode, r.stdout.strip()[-1500:]))
            if r.returncode == 2:
                continue
            if r.returncode != 0:
                bad += 1
            if u.digest_group and "digest=" in r.stdout:
                dg = r.stdout.split("digest=")[1].split()[0]
                prev = digests.setdefault(u.digest_group, dg)
                if prev != dg:
                    print("[%s] transcript digest differs from the first unit of group %s" % (u.name, u.digest_group)); bad += 1
        if extra_replay and not bad:
            msg = extra_replay(path, work)
            if msg:
                print("[extra oracle] " + msg); bad += 1
        if bad:
            print("VIOLATION property=%s replay=%s" % (pid, path))
            return 1
        return 0
    finally:
        shutil.rmtree(work, ignore_errors=True)


def main(argv):
    import props
    if not argv:
        print(__doc__); return 2
    pid = argv[0]; tier = os.environ.get("VERIF_TIER", "quick"); replay = None
    seed = int(os.environ.get("VERIF_SEED", "1") or "1")
    i = 1
    while i < len(argv):
        if argv[i] == "--tier": tier = argv[i + 1]; i += 2
        elif argv[i] == "--replay": replay = argv[i + 1]; i += 2
        elif argv[i] == "--seed": seed = int(argv[i + 1]); i += 2
        else: i += 1
    if tier not in ("quick", "thorough"):
        tier = "quick"
    if pid not in props.REGISTRY:
        print("unknown property", pid); return 2
    try:
        return props.REGISTRY[pid](pid, tier, seed, replay)
    except InfraError as e:
        print("INFRA-ERROR (%s): %s" % (pid, e))
        return 2
    except Exception:
        import traceback
        print("INFRA-ERROR (%s): unexpected exception in the driver\n%s" % (pid, traceback.format_exc()))
        return 2


# --------------------------------------------------------------------------- libFuzzer campaigns (thorough tier)
FUZZ_SAN = ["-fsanitize=address,undefined", "-fno-sanitize=alignment", "-fno-sanitize-recover=undefined", "-fno-omit-frame-pointer", "-g"]


def run_fuzz(pid, propnum, seed_unit, replay_units, work, seed, workers=8, seconds=120):
    """Structure-aware libFuzzer campaign on harness/fz.cpp with the property's own oracle inside the target.
    Returns (violations, info).  Budget exhaustion is never a violation; only crash artefacts count and each
    is replayed 3x through the plain replayers of the property's rapidcheck units."""
    import glob
    cfg = LibCfg(name="fuzz", cc="clang", opt="-O1", cflags=["-fsanitize=fuzzer-no-link"] + FUZZ_SAN, alloc_redirect=True)
    objs = [skv.build_harness_obj("fz.cpp", cxx="clang++", flags=["-fsanitize=fuzzer"] + FUZZ_SAN + ["-O1"]),
            skv.build_harness_obj("mon_alloc.c", cxx="clang", flags=FUZZ_SAN),
            skv.build_lib(cfg)]
    fz = os.path.join(work, "fz-%s" % pid)
    skv.link(objs, fz, cxx="clang++", libs=["-lrapidcheck", "-ldl"], flags=["-fsanitize=fuzzer,address,undefined"])
    # seed corpus: cases generated by the property's rapidcheck harness (plus an empty-corpus worker)
    corpus0 = skv._mk(os.path.join(work, "corpus-seed"))
    env = dict(os.environ, **seed_unit.env)
    env["RC_PARAMS"] = "seed=%d max_success=150 max_size=60" % (seed * 1000 + 777)
    subprocess.run(seed_unit.cmd("gen", "--corpus", corpus0, "--corpus-n", "150"), env=env, stdout=subprocess.PIPE, stderr=subprocess.STDOUT, timeout=600)
    cmds = []; meta = []
    for w in range(workers):
        cdir = skv._mk(os.path.join(work, "corpus-%d" % w))
        if w % 4 != 3:                      # every fourth worker starts from an empty corpus
            for f in os.listdir(corpus0):
                shutil.copy(os.path.join(corpus0, f), cdir)
        base = os.path.join(work, "fz-w%d" % w)
        e = dict(ASAN_OPTIONS="detect_leaks=0:allocator_may_return_null=1:abort_on_error=1", UBSAN_OPTIONS="halt_on_error=1",
                 SKV_FZ_PROP=str(propnum), SKV_FZ_OUT=base + ".json", SKV_FZ_FAIL=base + ".fail", SKV_FZ_CUR=base + ".cur")
        cmds.append(([fz, cdir, "-max_total_time=%d" % seconds, "-seed=%d" % (seed * 100 + w + 1), "-artifact_prefix=" + base + "-",
                      "-print_final_stats=1", "-max_len=30000", "-len_control=0", "-timeout=60", "-rss_limit_mb=3000"], e))
        meta.append(base)
    results = skv.run_procs(cmds, timeout=seconds + 300)
    violations = []; execs = 0; crashes = 0; statfiles = []; hashfiles = []
    for base, (rc, out) in zip(meta, results):
        for line in out.splitlines():
            if "stat::number_of_executed_units" in line:
                try: execs += int(line.split()[-1])
                except ValueError: pass
        statfiles.append(base + ".json"); hashfiles.append(base + ".json.hashes")
        arts = [a for a in glob.glob(base + "-crash-*") + glob.glob(base + "-leak-*")]
        if not arts:
            continue            # slow-unit / timeout / oom artefacts are load noise, not violations
        crashes += 1
        if len(violations) >= 3:
            continue
        src = base + ".fail" if os.path.exists(base + ".fail") else base + ".cur"
        if not os.path.exists(src):
            raise InfraError("fuzzer crashed without leaving a case: " + out[-2000:])
        rp = save_replay(pid, open(src).read())
        msg = open(base + ".fail.msg").read().strip() if os.path.exists(base + ".fail.msg") else "crash / sanitizer report in the fuzz target: " + out.strip()[-400:]
        confirmed = None
        for u in replay_units:
            fails, rout = replay_fails(u, rp, 3)
            if fails == 3:
                confirmed = u; break
        if confirmed is None:
            # not visible in the gcc builds: accept a 3x reproduction by the sanitizer build of the fuzz target executing
            # the *repaired program* that was running when it died (no mutation, no raw fuzzer input involved)
            fails = 0
            for _ in range(3):
                r = subprocess.run([fz, rp, "-timeout=60"], stdout=subprocess.PIPE, stderr=subprocess.STDOUT, env=dict(os.environ, **cmds[0][1]))
                fails += r.returncode != 0
            if fails < 3:
                os.unlink(rp)
                raise InfraError("fuzz target died on an input, but the program it was executing does not reproduce the failure "
                                 "(a defect of the fuzz harness itself: parse / repair / mutator): " + msg)
            violations.append((rp, "libfuzzer", msg + " (reproduces in the clang ASan+UBSan build of the fuzz target)"))
        else:
            violations.append((rp, "libfuzzer->" + confirmed.name, msg))
    info = dict(workers=workers, seconds_per_worker=seconds, executions=execs, workers_with_crash=crashes,
                seed_corpus=len(os.listdir(corpus0)), empty_corpus_workers=len([w for w in range(workers) if w % 4 == 3]))
    return violations, info, statfiles, hashfiles
