"""C08 cross-check: lackey instruction/data address trace equality for two secret sets (thorough tier)."""
import os, subprocess
import skv
from skv import InfraError


def build(work, libcfg):
    objs = [skv.build_harness_obj("c08trace.cpp"), skv.build_lib(libcfg)]
    exe = os.path.join(work, "c08trace")
    return skv.link(objs, exe, libs=["-ldl"])


def trace(exe, prog, seed, work, tag):
    log = os.path.join(work, "lackey-%s.log" % tag)
    r = subprocess.run(["valgrind", "--tool=lackey", "--trace-mem=yes", "--log-file=" + log, exe, prog, str(seed)],
                       stdout=subprocess.PIPE, stderr=subprocess.STDOUT, text=True, timeout=1800)
    b = e = None
    for line in r.stdout.splitlines():
        if line.startswith("markers "):
            _, b, e = line.split()
    if b is None:
        raise InfraError("trace interpreter printed no markers: " + r.stdout[-500:])
    b = int(b, 16); e = int(e, 16)
    out = []; inside = False
    with open(log, errors="replace") as f:
        for line in f:
            if len(line) < 4 or line[0] == "=":
                continue
            kind = line[:2].strip()
            if kind not in ("I", "L", "S", "M"):
                continue
            addr = line[3:].split(",")[0]
            if kind == "I":
                a = int(addr, 16)
                if a == b: inside = True; continue
                if a == e: inside = False; continue
            if inside:
                out.append(line[:2] + addr)
    os.unlink(log)
    return out


def differs(exe, prog, work):
    """Returns None if the two traces are identical, else a description of the first difference."""
    # secret sets: all-zero bytes, all-0xff bytes, two pseudo-random sets (seed digits keep argv the same length)
    ts = [(s, trace(exe, prog, s, work, "s%d" % s)) for s in (0, 9, 1, 2)]
    t1 = ts[0][1]
    if not t1:
        raise InfraError("empty trace")
    for s, t2 in ts[1:]:
        if t1 == t2:
            continue
        n = min(len(t1), len(t2))
        for i in range(n):
            if t1[i] != t2[i]:
                return ("instruction / data address traces for secret set 0 (all-zero) and secret set %d diverge at event %d of %d: %s vs %s"
                        % (s, i, n, t1[i].strip(), t2[i].strip())), n
        return "traces have different lengths (%d vs %d events)" % (len(t1), len(t2)), n
    return None, len(t1) * 3
